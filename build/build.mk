# Build the MEDDLY library (from $(SRC), default /repo, *current working tree*) and the
# verification harness into $(OUT) = /verif/.build/<variant>[-<repohash>].
#
#   make -f build/build.mk VARIANT=asan|opt [SRC=/repo] [-j16]
#
# The list of library sources is read from $(SRC)/src/Makefile.am (the same list the
# project's own build uses); -MMD dependency files make header edits rebuild dependants;
# the flag set is recorded in a stamp so a flag change forces a full rebuild.

VERIF   := $(abspath $(dir $(lastword $(MAKEFILE_LIST)))/..)
SRC     ?= /repo
VARIANT ?= asan
GUARD   := MEDDLY_VERIF

ifeq ($(SRC),/repo)
  OUT := $(VERIF)/.build/$(VARIANT)
else
  OUT := $(VERIF)/.build/$(VARIANT)-$(shell echo $(SRC) | md5sum | cut -c1-8)
endif

CXX := g++
COMMON := -std=gnu++17 -DHAVE_CONFIG_H -D$(GUARD) -I$(OUT)/cfg -I$(SRC) -I$(SRC)/src -Wno-error -w

ifeq ($(VARIANT),asan)
  FLAGS := -O1 -g -fno-omit-frame-pointer -fsanitize=address,undefined \
           -fno-sanitize=shift-base,alignment -fno-sanitize-recover=undefined
else ifeq ($(VARIANT),asanx)
  FLAGS := -O1 -g -fno-omit-frame-pointer -fsanitize=address,undefined \
           -fno-sanitize=shift-base,alignment -fsanitize-recover=address,undefined
else ifeq ($(VARIANT),opt)
  FLAGS := -O2 -g
else
  $(error unknown VARIANT $(VARIANT))
endif

LIBSRCS := $(shell grep -o '[A-Za-z0-9_/]*\.cc' $(SRC)/src/Makefile.am | sort -u)
LIBOBJS := $(patsubst %.cc,$(OUT)/lib/%.o,$(LIBSRCS))

HSRCS   := $(wildcard $(VERIF)/harness/w_*.cc)
HBINS   := $(patsubst $(VERIF)/harness/%.cc,$(OUT)/bin/%,$(HSRCS))
HHDRS   := $(wildcard $(VERIF)/harness/*.h)

STAMP   := $(OUT)/flags.stamp
CFG     := $(OUT)/cfg/config.h

all: $(HBINS)

# ---- flag stamp -----------------------------------------------------------------
FLAGSTR := $(CXX) $(COMMON) $(FLAGS)
$(STAMP): FORCE
	@mkdir -p $(OUT)
	@if [ ! -f $@ ] || [ "`cat $@`" != "$(FLAGSTR)" ]; then echo "$(FLAGSTR)" > $@; fi

# ---- config.h: use the repo's if configured, else a minimal equivalent -----------
$(CFG): FORCE
	@mkdir -p $(OUT)/cfg
	@if [ -f $(SRC)/config.h ]; then rm -f $@; \
	 else if [ ! -f $@ ]; then printf '#define HAVE_CXX11 1\n#define HAVE_LIBGMP 1\n#define HAVE_MALLOC_USABLE_SIZE 1\n#define HAVE_GETRUSAGE 1\n#define HAVE_SYS_TIME_H 1\n#define HAVE_GETTIMEOFDAY 1\n#define PACKAGE_NAME "MEDDLY"\n#define PACKAGE_VERSION "0.18.2"\n#define VERSION "0.18.2"\n#define PACKAGE_URL "https://asminer.github.io/meddly/"\n' > $@; fi; fi

$(OUT)/cfg/revision.h: FORCE
	@mkdir -p $(OUT)/cfg
	@if [ -f $(SRC)/src/revision.h ]; then rm -f $@; \
	 else if [ ! -f $@ ]; then printf 'const char* MEDDLY_DATE = "verif";\nconst char* MEDDLY_VERS = "";\n' > $@; fi; fi

# ---- library objects ---------------------------------------------------------------
$(OUT)/lib/%.o: $(SRC)/src/%.cc $(STAMP) | $(CFG) $(OUT)/cfg/revision.h
	@mkdir -p $(dir $@)
	$(CXX) $(COMMON) $(FLAGS) -MMD -MP -c $< -o $@

$(OUT)/libmeddly.a: $(LIBOBJS)
	@rm -f $@
	@ar rcsT $@ $(LIBOBJS)

# ---- harness -----------------------------------------------------------------------
$(OUT)/hobj/%.o: $(VERIF)/harness/%.cc $(HHDRS) $(STAMP) | $(CFG)
	@mkdir -p $(dir $@)
	$(CXX) $(COMMON) $(FLAGS) -I$(VERIF)/harness -MMD -MP -c $< -o $@

$(OUT)/bin/%: $(OUT)/hobj/%.o $(OUT)/libmeddly.a
	@mkdir -p $(dir $@)
	$(CXX) $(FLAGS) -rdynamic $< $(OUT)/libmeddly.a -lgmp -ldl -o $@

.PRECIOUS: $(OUT)/hobj/%.o
.PHONY: all FORCE
FORCE:

-include $(LIBOBJS:.o=.d)
-include $(patsubst $(VERIF)/harness/%.cc,$(OUT)/hobj/%.d,$(HSRCS))

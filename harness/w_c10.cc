// C10: copying between forests preserves the function (scalar conversion of the source
// value), for every ordered pair of forest kinds with the same shape; copy there and back
// returns the identical edge when the model says no information is lost.
#include "audit.h"
#include "opsmodel.h"
using namespace V;

enum ConvT { CV_OK, CV_SKIP };
// documented scalar conversion between value kinds (C++ conversions of the value; MT 0 -> EV+ finite 0;
// EV+ +infinity into anything but EV+ is not specified by the source ("then what???") -> skipped)
static ConvT conv(const Val& v, const FSpec& src, const FSpec& dst, Val& out) {
    if (v.isInf()) { if (dst.isEVP()) { out = v; return CV_OK; } return CV_SKIP; }
    if (dst.isBool()) { out = Val::b(v.truthy()); return CV_OK; }
    if (dst.isInt()) {
        if (v.k == Val::R) out = Val::in(long(int(float(v.r))));
        else out = Val::in(v.i);
        return CV_OK;
    }
    // real target
    if (v.k == Val::R) out = Val::re(double(float(v.r))); else out = Val::re(double(float(v.i)));
    return CV_OK;
}

// Is `got` an acceptable conversion of source value v?  Real sources are only known to the precision of
// their representation (MT terminals: absolute 1e-5; EV*: relative ~1e-5 from products of float edge
// values), so a truncation / zero test of a value that close to the boundary may fall on either side.
static bool acceptable(const Val& v, const Val& got, const Val& want, const FSpec& src, const FSpec& dst, const Tol& tol) {
    if (valEq(got, want, tol)) return true;
    if (!src.isReal() || v.isInf() || got.isInf()) return false;
    double d = 3e-5 + std::fabs(v.r) * 3e-5;
    if (dst.isBool()) return std::fabs(v.r) <= d;
    if (dst.isInt()) return got.k == Val::I && (got.i == long(int(float(v.r - d))) || got.i == long(int(float(v.r + d))));
    return false;
}
// first point where the copy is not an acceptable conversion, or -1
static long firstBad(const Table& srcT, const Table& got, const Table& want, const std::vector<bool>& skip, const FSpec& src, const FSpec& dst, const Tol& tol) {
    for (size_t i = 0; i < got.size(); i++) { if (skip[i]) continue; if (!acceptable(srcT[i], got[i], want[i], src, dst, tol)) return long(i); }
    return -1;
}
// key of a wrong value: the known class "zero of a skipped identity level becomes +infinity in an EV+ target" is named precisely
static std::string wrongKey(const FSpec& src, const FSpec& dst, const Val& v, const Val& got, const std::string& suffix) {
    bool vz = !v.isInf() && (v.k == Val::R ? v.r == 0 : v.i == 0);
    if (src.rel && src.rr == reduction_rule::IDENTITY_REDUCED && !src.isEVP() && dst.isEVP() && vz && got.isInf())
        return "C10:COPY:identity-reduced-source->EV+:zero-becomes-infinity";
    return "C10:COPY:" + src.kindStr() + "->" + dst.kindStr() + ":wrong-value" + suffix;
}

static Val srcValue(Rng& r, const FSpec& fs) {
    if (fs.isBool()) return Val::b(true);
    if (fs.isInt()) {
        int k = int(r.below(8));
        if (k == 0 && fs.isEVP()) return Val::in(0);
        if (k < 5) return Val::in(r.range(-9, 9) == 0 ? 1 : r.range(-9, 9));
        if (k < 7) return Val::in(r.range(-1000, 1000));
        return Val::in(r.range(-100000, 100000));
    }
    int k = int(r.below(6));
    if (k < 3) return Val::re(0.25 * r.range(-40, 40));
    double base = double(r.range(-300, 300)), frac = 0.1 + 0.8 * r.unit();
    return Val::re(double(float(base + frac)));
}

static void run(Ctx& c) {
    Rng& r = c.rng;
    bool rel = r.chance(1, 2);
    Shape sh = rel ? randomShape(r, 1, 4, 4, 30) : randomShape(r, 1, 5, 5, 500);
    std::vector<FSpec> kinds = allKinds(rel);
    MEDDLY::initialize();
    // one relation case in five: the primed bound of one or two variables is larger than the unprimed bound
    // (domain::enlargeVariableBound(v, true, b)): primed and unprimed levels of a variable then have different sizes
    Shape shP = sh;
    if (rel && r.chance(1, 5)) { int k = r.range(1, 2); for (int i = 0; i < k; i++) shP.sizes[size_t(r.range(1, sh.n()))] += r.range(1, 2); c.count("cases_with_larger_primed_bounds"); }
    World w(sh, shP);
    // a few forests: source, target, and a second object of the source kind (round trips land in the source forest)
    FSpec fsA = kinds[r.below(kinds.size())], fsB = kinds[r.below(kinds.size())];
    if (r.chance(1, 6)) fsB = fsA;                       // same kind and rule, distinct object
    if (r.chance(1, 6)) { fsB = fsA; fsB.rr = kinds[r.below(kinds.size())].rr; }   // same value kind, other rule
    randomPolicy(r, fsA); randomPolicy(r, fsB);
    forest* FA = makeForest(w.dom, fsA);
    forest* FB = makeForest(w.dom, fsB);
    Tol tolB = tolFor(fsB); if (fsB.isEVT() || fsA.isEVT()) { tolB.abs = 1e-6; tolB.rel = 3e-5; } else if (fsB.isReal()) { tolB.abs = 3e-5; tolB.rel = 2e-6; }
    Tol tolA = tolFor(fsA); if (fsA.isEVT() || fsB.isEVT()) { tolA.abs = 1e-6; tolA.rel = 6e-5; } else if (fsA.isReal()) { tolA.abs = 3e-5; tolA.rel = 2e-6; }
    int n = r.range(2, 6);
    uint64_t sig = 0; bool nontriv = false; std::string desc;
    const std::string pair = fsA.kindStr() + "->" + fsB.kindStr();
    for (int it = 0; it < n; it++) {
        std::vector<Val> alpha; int k = r.range(1, 4);
        for (int i = 0; i < k; i++) alpha.push_back(srcValue(r, fsA));
        Table ta = randomTable(r, w, fsA, alpha);
        dd_edge ea(FA), eb(FB), eback(FA);
        buildChecked(w, FA, fsA, ta, ea, "C10");
        dd_edge eaCopy(ea);
        if (!applyUn(c, COPY(), ea, eb)) continue;
        c.count("copies");
        // expected table in B
        Table want(ta.size()); std::vector<bool> skip(ta.size(), false); long nskip = 0;
        for (size_t i = 0; i < ta.size(); i++) { if (conv(ta[i], fsA, fsB, want[i]) == CV_SKIP) { skip[i] = true; nskip++; } }
        Table got = evalAll(w, eb);
        c.count("points_evaluated", long(got.size()));
        for (size_t i = 0; i < got.size(); i++) if (skip[i]) want[i] = got[i];
        long d = firstBad(ta, got, want, skip, fsA, fsB, tolB);
        if (d >= 0) throw Violation(wrongKey(fsA, fsB, ta[size_t(d)], got[size_t(d)], ""), "shape " + sh.str() + (w.asymmetric() ? " primed " + shP.str() : std::string()) + " " + fsA.str() + " -> " + fsB.str() + " A=" + tableStr(ta, 32) + ": at " +
                                    pointStr(w, rel, size_t(d)) + " source=" + ta[size_t(d)].str() + " copy=" + got[size_t(d)].str() + " model=" + want[size_t(d)].str());
        c.count("unspecified_points_skipped", nskip);
        // source unchanged
        if (ea != eaCopy) throw Violation("C10:COPY:" + pair + ":operand-changed", "source edge changed by COPY");
        expectTable(w, ea, ta, tolFor(fsA), "C10:COPY:" + pair + ":operand-changed", "source after COPY");
        // copy of the copy inside B's forest is the identical edge; a second copy of the same source too
        {
            dd_edge eb2(FB);
            applyUn(c, COPY(), ea, eb2);
            if (eb2 != eb) throw Violation("C10:COPY:" + pair + ":not-deterministic", "copying the same edge twice gave two different edges");
            dd_edge eb3(FB);
            applyUn(c, COPY(), eb, eb3);
            if (eb3 != eb) throw Violation("C10:COPY:" + fsB.kindStr() + "->same-forest:not-identity", "copy within one forest is not the identical edge");
        }
        // round trip
        if (applyUn(c, COPY(), eb, eback)) {
            Table back(ta.size()); bool lossless = (nskip == 0);
            std::vector<bool> skip2(ta.size(), false);
            for (size_t i = 0; i < ta.size(); i++) {
                if (skip[i]) { skip2[i] = true; continue; }
                if (conv(want[i], fsB, fsA, back[i]) == CV_SKIP) { skip2[i] = true; lossless = false; continue; }
                if (!valEq(back[i], ta[i])) lossless = false;
            }
            Table got2 = evalAll(w, eback);
            for (size_t i = 0; i < got2.size(); i++) if (skip2[i]) back[i] = got2[i];
            // the copy in B is itself only known to B's precision: judge the way back from what B actually holds
            Table backFromGot(ta.size());
            for (size_t i = 0; i < ta.size(); i++) { if (skip2[i]) continue; Val t; if (conv(got[i], fsB, fsA, t) == CV_SKIP) { skip2[i] = true; continue; } backFromGot[i] = t; }
            for (size_t i = 0; i < got2.size(); i++) if (skip2[i]) backFromGot[i] = got2[i];
            long d2 = firstBad(got, got2, backFromGot, skip2, fsB, fsA, tolA);
            if (d2 >= 0) throw Violation(wrongKey(fsB, fsA, got[size_t(d2)], got2[size_t(d2)], "(round-trip)"), "shape " + sh.str() + (w.asymmetric() ? " primed " + shP.str() : std::string()) + " " + fsA.str() + " -> " + fsB.str() + " -> back, A=" + tableStr(ta, 32) +
                                         ": at " + pointStr(w, rel, size_t(d2)) + " in-target=" + got[size_t(d2)].str() + " got=" + got2[size_t(d2)].str() + " model=" + backFromGot[size_t(d2)].str());
            c.count("round_trips");
            // exact-lane: identical edge required when nothing is lost and no real rounding is involved
            bool exactLane = lossless && !fsA.isReal() && (!fsB.isReal() || fsB.isMT());
            if (exactLane && fsB.isReal()) for (auto& v : ta) if (!v.isInf() && std::labs(v.i) > 4096) exactLane = false;
            if (exactLane) {
                c.count("round_trips_lossless");
                if (eback != ea) throw Violation("C10:COPY:" + pair + ":round-trip-not-identical", "shape " + sh.str() + (w.asymmetric() ? " primed " + shP.str() : std::string()) + " " + fsA.str() + " -> " + fsB.str() + " -> back: lossless round trip returned a different edge, A=" + tableStr(ta, 32));
            }
        }
        bool nonconst = false; for (auto& x : ta) if (!valEq(x, ta[0])) nonconst = true;
        if (nonconst) nontriv = true;
        sig = sig * 1000003ULL ^ tableHash(ta);
        if (desc.size() < 200) desc += tableStr(ta, 10) + "; ";
    }
    auditForest(FA, fsA.kindStr(), c, "C10");
    auditForest(FB, fsB.kindStr(), c, "C10");
    c.count("pair:" + pair);
    c.nontrivial = nontriv;
    c.sig = tos(sig ^ hashstr(pair.c_str()) ^ hashstr(sh.str().c_str()));
    c.sample = "{\"shape\":" + jstr(sh.str()) + ",\"from\":" + jstr(fsA.str()) + ",\"to\":" + jstr(fsB.str()) + ",\"tables\":" + jstr(desc) + "}";
    MEDDLY::cleanup();
}

int main(int argc, char** argv) { return workerMain(argc, argv, "C10", run); }

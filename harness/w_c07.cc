// C07: compute tables are transparent.  One script (same forest policies) is executed with caches
// cleared after EVERY step (reference), and under the 4 built-in table styles x 3 stale-removal policies
// x maximum sizes {1024, 4096, 65536, 16M}; every step's result must equal the model (hence the
// reference), node counts must equal the reference's, and the cache-count audit M3 compares every
// node's stored cache count with the number of live entries that mention it.  The handle monitor M5
// asserts that no handle is recycled or re-issued while its cache count is non-zero.
#include "script.h"
using namespace V;

static void run(Ctx& c) {
    Rng& r = c.rng;
    ScriptOpts so; so.minSteps = 60; so.maxSteps = c.thorough ? 260 : 140; so.maxSetPoints = 200; so.maxRelStates = 16;
    if (r.chance(1, 4)) { so.minSteps = 250; so.maxSteps = 400; so.maxSetPoints = 120; }   // long: many entries, table resize / GC scans
    Script S = genScript(r, so);
    size_t nf = S.forests.size();
    Config base = randomConfig(r, nf, false);
    // make deaths likely: at least one pessimistic and one optimistic forest when possible
    if (nf >= 2) { base.del[0] = 1; base.del[1] = 0; }
    Config ref = base; ref.clearEveryStep = true;
    ExecOpts eo; eo.prop = "C07"; eo.auditEvery = 6; eo.canon = false; eo.reevalEvery = 12;
    std::vector<long> refCounts; eo.nodeCounts = &refCounts;
    runScript(S, ref, c, eo);
    c.count("configurations_run");
    eo.nodeCounts = nullptr; eo.expectNodeCounts = &refCounts;
    std::vector<Config> cfgs;
    unsigned long sizes[] = {1024, 4096, 65536, 16777216};
    if (c.thorough) { for (int sty = 0; sty < 4; sty++) for (int sr = 0; sr < 3; sr++) { Config k = base; k.ctStyle = sty; k.ctStale = sr; k.ctMax = sizes[r.below(4)]; cfgs.push_back(k); } Config k = base; k.ctMax = 1024; cfgs.push_back(k); }
    else { int n = r.range(3, 5); for (int i = 0; i < n; i++) { Config k = base; k.ctStyle = int(r.below(4)); k.ctStale = int(r.below(3)); k.ctMax = sizes[r.below(4)]; cfgs.push_back(k); } }
    for (const Config& k : cfgs) {
        runScript(S, k, c, eo);
        c.count("configurations_run");
        c.count("ct_style:" + tos(k.ctStyle)); c.count("ct_stale:" + tos(k.ctStale)); c.count("ct_max:" + tos(k.ctMax));
    }
    uint64_t sig = hashstr(S.str().c_str()); for (auto& st : S.steps) sig = sig * 1000003ULL ^ uint64_t(st.k * 31 + st.op) ^ (st.table.empty() ? 0 : tableHash(st.table));
    c.sig = tos(sig);
    c.nontrivial = c.counters["cachecounts_nonzero_checked"] > 0 && c.counters["handles_reissued"] > 0;
    c.sample = "{\"script\":" + jstr(S.str()) + ",\"configurations\":" + tos(cfgs.size() + 1) + ",\"example_config\":" + jstr(cfgs.empty() ? ref.str() : cfgs[0].str()) + "}";
}
int main(int argc, char** argv) { return workerMain(argc, argv, "C07", run); }

// Common infrastructure of the MEDDLY runtime-verification harness.
//   - deterministic PRNG (splitmix64 / xoshiro256**), every case = f(VERIF_SEED, property, index)
//   - reference model: Shape (domain), Val (tagged scalar), Table (explicit function)
//   - forest specs, construction of library objects from the model, pointwise evaluation
//   - case/violation bookkeeping and the worker main loop
#ifndef VCOMMON_H
#define VCOMMON_H

#include "meddly.h"

#include <cstdint>
#include <cstdio>
#include <cstdlib>
#include <cstring>
#include <cmath>
#include <string>
#include <vector>
#include <map>
#include <set>
#include <sstream>
#include <algorithm>
#include <functional>
#include <unistd.h>

namespace V {

using namespace MEDDLY;

// ------------------------------------------------------------------------------------
// PRNG
// ------------------------------------------------------------------------------------
static inline uint64_t splitmix64(uint64_t &x) {
    uint64_t z = (x += 0x9e3779b97f4a7c15ULL);
    z = (z ^ (z >> 30)) * 0xbf58476d1ce4e5b9ULL;
    z = (z ^ (z >> 27)) * 0x94d049bb133111ebULL;
    return z ^ (z >> 31);
}
static inline uint64_t hashstr(const char* s) {
    uint64_t h = 1469598103934665603ULL;
    for (; *s; ++s) { h ^= (unsigned char)*s; h *= 1099511628211ULL; }
    return h;
}
struct Rng {
    uint64_t s[4];
    Rng(uint64_t seed = 1) { reseed(seed); }
    void reseed(uint64_t seed) { uint64_t x = seed; for (int i=0;i<4;i++) s[i]=splitmix64(x); }
    static inline uint64_t rotl(uint64_t x, int k) { return (x << k) | (x >> (64 - k)); }
    uint64_t next() {
        const uint64_t result = rotl(s[1] * 5, 7) * 9;
        const uint64_t t = s[1] << 17;
        s[2] ^= s[0]; s[3] ^= s[1]; s[1] ^= s[2]; s[0] ^= s[3];
        s[2] ^= t; s[3] = rotl(s[3], 45);
        return result;
    }
    // uniform in [0,n)
    uint64_t below(uint64_t n) { return n ? next() % n : 0; }
    int range(int lo, int hi) { return lo + int(below(uint64_t(hi - lo + 1))); }
    bool chance(int num, int den) { return below(den) < uint64_t(num); }
    double unit() { return double(next() >> 11) / 9007199254740992.0; }
    template <class T> const T& pick(const std::vector<T>& v) { return v[below(v.size())]; }
    template <class T> void shuffle(std::vector<T>& v) {
        for (size_t i = v.size(); i > 1; --i) std::swap(v[i-1], v[below(i)]);
    }
};
static inline uint64_t caseSeed(uint64_t seed, const char* prop, long idx) {
    uint64_t x = seed * 0x9e3779b97f4a7c15ULL ^ hashstr(prop) ^ (uint64_t(idx) * 0xd1342543de82ef95ULL);
    splitmix64(x);
    return splitmix64(x);
}

// ------------------------------------------------------------------------------------
// tiny JSON helpers
// ------------------------------------------------------------------------------------
static inline std::string jstr(const std::string& s) {
    std::string o = "\"";
    for (char c : s) {
        switch (c) {
            case '"': o += "\\\""; break;
            case '\\': o += "\\\\"; break;
            case '\n': o += "\\n"; break;
            case '\t': o += "\\t"; break;
            default:
                if ((unsigned char)c < 0x20) { char b[8]; snprintf(b, 8, "\\u%04x", c); o += b; }
                else o += c;
        }
    }
    return o + "\"";
}
template <class T> static inline std::string tos(const T& v) { std::ostringstream o; o << v; return o.str(); }

// ------------------------------------------------------------------------------------
// Violations
// ------------------------------------------------------------------------------------
static FILE* g_out = nullptr;
struct Violation {
    std::string key;     // stable, narrow identification (used for known-findings matching)
    std::string detail;  // human readable witness
    // The verdict is written to the event log at the moment it is reached: unwinding past live dd_edges in a forest whose
    // counts are already wrong can crash, and the crash must not replace the observation that preceded it.
    Violation(const std::string& k, const std::string& d) : key(k), detail(d) {
        if (g_out) { fprintf(g_out, "{\"t\":\"thrown\",\"key\":%s,\"detail\":%s}\n", jstr(k).c_str(), jstr(d).c_str()); fflush(g_out); }
    }
};
struct Unsupported {     // combination the library does not offer; never a violation
    std::string what;
    Unsupported(const std::string& w) : what(w) {}
};

// ------------------------------------------------------------------------------------
// Model: domain shape
// ------------------------------------------------------------------------------------
struct Shape {
    // sizes[v] for variable v = 1..n ; sizes[0] unused.  Variable n is the top variable in
    // the default order.  Points are numbered lexicographically with variable n most
    // significant, so increasing point number == the library's iteration order for sets.
    std::vector<int> sizes;
    int n() const { return int(sizes.size()) - 1; }
    long npoints() const { long p = 1; for (int v = 1; v <= n(); v++) p *= sizes[v]; return p; }
    void decode(long p, std::vector<int>& a) const {   // a[1..n]
        a.assign(n() + 1, 0);
        for (int v = 1; v <= n(); v++) { a[v] = int(p % sizes[v]); p /= sizes[v]; }
    }
    long encode(const std::vector<int>& a) const {
        long p = 0;
        for (int v = n(); v >= 1; v--) p = p * sizes[v] + a[v];
        return p;
    }
    std::string str() const {
        std::string s = "[";
        for (int v = 1; v <= n(); v++) { if (v > 1) s += ","; s += tos(sizes[v]); }
        return s + "]";
    }
};
// random shape with at most maxPoints points
static inline Shape randomShape(Rng& r, int minVars, int maxVars, int maxSize, long maxPoints) {
    for (;;) {
        Shape s; int n = r.range(minVars, maxVars);
        s.sizes.assign(n + 1, 0);
        for (int v = 1; v <= n; v++) s.sizes[v] = r.range(2, maxSize);
        if (s.npoints() <= maxPoints) return s;
    }
}

// As randomShape, but one case in six has a "wide" variable (10..40 values) next to at most two small ones: node sizes
// beyond one decimal digit (exchange-file index parsing, sparse/full packing thresholds, wide minterm partitions).
static inline Shape randomShapeW(Rng& r, int minVars, int maxVars, int maxSize, long maxPoints) {
    if (!r.chance(1, 6)) return randomShape(r, minVars, maxVars, maxSize, maxPoints);
    for (;;) {
        Shape s; int n = r.range(minVars, std::min(maxVars, 3));
        s.sizes.assign(n + 1, 0);
        for (int v = 1; v <= n; v++) s.sizes[v] = r.range(2, 3);
        s.sizes[r.range(1, n)] = r.range(10, int(std::min(40L, maxPoints)));
        if (s.npoints() <= maxPoints) return s;
    }
}

// ------------------------------------------------------------------------------------
// Model: values
// ------------------------------------------------------------------------------------
struct Val {
    enum Kind : uint8_t { B, I, R, INF };   // INF = +infinity (integer range, EV+)
    Kind k; long i; double r;
    Val() : k(B), i(0), r(0) {}
    static Val b(bool x) { Val v; v.k = B; v.i = x; return v; }
    static Val in(long x) { Val v; v.k = I; v.i = x; return v; }
    static Val re(double x) { Val v; v.k = R; v.r = x; return v; }
    static Val inf() { Val v; v.k = INF; return v; }
    bool isInf() const { return k == INF; }
    bool truthy() const { return k == INF ? true : (k == R ? r != 0.0 : i != 0); }
    std::string str() const {
        switch (k) {
            case B: return i ? "T" : "F";
            case I: return tos(i);
            case R: { char b[40]; snprintf(b, 40, "%.9g", r); return b; }
            default: return "inf";
        }
    }
};
struct Tol { double abs, rel; };
static const Tol EXACT = {0, 0};
static inline bool valEq(const Val& a, const Val& b, const Tol& t = EXACT) {
    if (a.k != b.k) return false;
    switch (a.k) {
        case Val::INF: return true;
        case Val::R: {
            if (a.r == b.r) return true;
            double d = std::fabs(a.r - b.r);
            return d <= t.abs + t.rel * std::max(std::fabs(a.r), std::fabs(b.r));
        }
        default: return a.i == b.i;
    }
}
typedef std::vector<Val> Table;

static inline uint64_t tableHash(const Table& t) {
    uint64_t h = 0xcbf29ce484222325ULL;
    for (const Val& v : t) {
        uint64_t x = uint64_t(v.k) * 1315423911ULL;
        if (v.k == Val::R) { double d = v.r; uint64_t b; memcpy(&b, &d, 8); x ^= b; }
        else if (v.k != Val::INF) x ^= uint64_t(v.i) * 0x9e3779b97f4a7c15ULL;
        h = (h ^ x) * 1099511628211ULL;
        h ^= h >> 29;
    }
    return h;
}
static inline std::string tableStr(const Table& t, size_t maxn = 64) {
    std::string s = "[";
    for (size_t i = 0; i < t.size() && i < maxn; i++) { if (i) s += ","; s += t[i].str(); }
    if (t.size() > maxn) s += ",...(" + tos(t.size()) + ")";
    return s + "]";
}

static inline Val fromRV(const rangeval& rv) {
    if (rv.isPlusInfinity()) return Val::inf();
    if (rv.isBoolean()) return Val::b(bool(rv));
    if (rv.isInteger()) return Val::in(long(rv));
    return Val::re(double(rv));
}
static inline rangeval toRV(const Val& v) {
    switch (v.k) {
        case Val::B: return rangeval(bool(v.i));
        case Val::I: return rangeval(long(v.i));
        case Val::R: return rangeval(double(v.r));
        default: return rangeval(range_special::PLUS_INFINITY, range_type::INTEGER);
    }
}

// ------------------------------------------------------------------------------------
// Forest specifications
// ------------------------------------------------------------------------------------
enum MMStyle { MM_ORIG_GRID = 0, MM_ARRAY_GRID = 1, MM_MALLOC = 2, MM_HEAP = 3 };
static inline const memory_manager_style* mmStyle(int m) {
    switch (m) {
        case MM_ORIG_GRID: return ORIGINAL_GRID;
        case MM_ARRAY_GRID: return ARRAY_PLUS_GRID;
        case MM_MALLOC: return MALLOC_MANAGER;
        default: return HEAP_MANAGER;
    }
}
static inline const char* mmName(int m) {
    static const char* n[] = {"orig_grid", "array_grid", "malloc", "heap"};
    return n[m & 3];
}

struct FSpec {
    bool rel = false;
    range_type rt = range_type::BOOLEAN;
    edge_labeling el = edge_labeling::MULTI_TERMINAL;
    reduction_rule rr = reduction_rule::FULLY_REDUCED;
    node_storage_flags st = FULL_OR_SPARSE;
    int mm = MM_ARRAY_GRID;
    policies::node_deletion del = policies::node_deletion::OPTIMISTIC;

    std::string kindStr() const {
        std::string s = rel ? "rel" : "set";
        s += "/"; s += nameOf(el); s += "/";
        s += (rt == range_type::BOOLEAN ? "bool" : rt == range_type::INTEGER ? "int" : "real");
        s += "/"; s += shortNameOf(rr);
        return s;
    }
    std::string polStr() const {
        std::string s = (st == FULL_ONLY ? "full" : st == SPARSE_ONLY ? "sparse" : "either");
        s += "/"; s += mmName(mm); s += "/";
        s += (del == policies::node_deletion::OPTIMISTIC ? "opt" :
              del == policies::node_deletion::PESSIMISTIC ? "pess" : "never");
        return s;
    }
    std::string str() const { return kindStr() + ":" + polStr(); }

    Val deflt() const {    // value of the forest's transparent edge
        if (el == edge_labeling::EVPLUS || el == edge_labeling::INDEX_SET) return Val::inf();
        if (el == edge_labeling::EVTIMES) return Val::re(0);
        if (rt == range_type::BOOLEAN) return Val::b(false);
        if (rt == range_type::INTEGER) return Val::in(0);
        return Val::re(0);
    }
    bool isReal() const { return rt == range_type::REAL; }
    bool isBool() const { return rt == range_type::BOOLEAN; }
    bool isInt() const { return rt == range_type::INTEGER; }
    bool isMT() const { return el == edge_labeling::MULTI_TERMINAL; }
    bool isEVP() const { return el == edge_labeling::EVPLUS; }
    bool isEVT() const { return el == edge_labeling::EVTIMES; }
};

static inline FSpec mkSpec(bool rel, range_type rt, edge_labeling el, reduction_rule rr) {
    FSpec f; f.rel = rel; f.rt = rt; f.el = el; f.rr = rr; return f;
}
// All forest kinds the library can create (value kinds x reduction rules).
static inline std::vector<FSpec> allKinds(bool rel) {
    std::vector<FSpec> out;
    std::vector<reduction_rule> rules = {reduction_rule::FULLY_REDUCED, reduction_rule::QUASI_REDUCED};
    if (rel) rules.push_back(reduction_rule::IDENTITY_REDUCED);
    for (auto rr : rules) {
        out.push_back(mkSpec(rel, range_type::BOOLEAN, edge_labeling::MULTI_TERMINAL, rr));
        out.push_back(mkSpec(rel, range_type::INTEGER, edge_labeling::MULTI_TERMINAL, rr));
        out.push_back(mkSpec(rel, range_type::REAL, edge_labeling::MULTI_TERMINAL, rr));
        out.push_back(mkSpec(rel, range_type::INTEGER, edge_labeling::EVPLUS, rr));
        if (rel) out.push_back(mkSpec(rel, range_type::REAL, edge_labeling::EVTIMES, rr));
    }
    return out;
}
static inline void randomPolicy(Rng& r, FSpec& f) {
    static const node_storage_flags sts[] = {FULL_OR_SPARSE, FULL_ONLY, SPARSE_ONLY};
    f.st = sts[r.below(3)];
    f.mm = int(r.below(4));
    static const policies::node_deletion dels[] = {policies::node_deletion::OPTIMISTIC,
        policies::node_deletion::PESSIMISTIC, policies::node_deletion::NEVER};
    f.del = dels[r.below(3)];
}

static inline domain* makeDomain(const Shape& s) {
    std::vector<int> b(s.n());
    for (int v = 1; v <= s.n(); v++) b[v-1] = s.sizes[v];
    return domain::createBottomUp(b.data(), unsigned(s.n()));
}
static inline forest* makeForest(domain* d, const FSpec& f) {
    policies p(f.rel);
    p.useDefaults(f.rel);
    p.reduction = f.rr;
    p.storage_flags = f.st;
    p.nodemm = mmStyle(f.mm);
    p.deletion = f.del;
    return forest::create(d, f.rel, f.rt, f.el, p);
}

// ------------------------------------------------------------------------------------
// A "world": one domain + helpers to move between tables and edges.
// For sets, a table has shape.npoints() entries indexed by point.
// For relations, a table has N*N entries indexed by from*N + to.
// ------------------------------------------------------------------------------------
struct World {
    Shape shape;
    long N = 0;
    domain* dom = nullptr;
    // level2var[level] for evaluation after reordering; identity by default
    World() {}
    // Relations: a point is (from, to) with from in [0,N) over `shape` and to in [0,NP) over `shapeP`, numbered from*NP + to.
    // shapeP == shape (NP == N) unless the world was created with larger primed bounds (domain::enlargeVariableBound(v, true, b)).
    Shape shapeP; long NP = 0;
    explicit World(const Shape& s) : shape(s), shapeP(s) { N = NP = s.npoints(); dom = makeDomain(s); }
    World(const Shape& s, const Shape& sp) : shape(s), shapeP(sp) {
        N = s.npoints(); NP = sp.npoints(); dom = makeDomain(s);
        for (int v = 1; v <= s.n(); v++) if (sp.sizes[size_t(v)] > s.sizes[size_t(v)]) dom->enlargeVariableBound(unsigned(v), true, sp.sizes[size_t(v)]);
    }
    bool asymmetric() const { return NP != N; }
    long tableSize(bool rel) const { return rel ? N * NP : N; }
};

// Set the assignment of point p (set) into minterm m of forest f.  Minterm positions are
// indexed by LEVEL; position `lvl` carries variable f->getVarByLevel(lvl).
static inline void setMintermSet(const forest* f, const Shape& sh, minterm& m, long p) {
    std::vector<int> a; sh.decode(p, a);
    for (int lvl = 1; lvl <= sh.n(); lvl++) m.setVar(unsigned(lvl), a[f ? f->getVarByLevel(lvl) : lvl]);
}
static inline void setMintermRel(const forest* f, const Shape& sh, const Shape& shP, minterm& m, long from, long to) {
    std::vector<int> a, b; sh.decode(from, a); shP.decode(to, b);
    for (int lvl = 1; lvl <= sh.n(); lvl++) {
        int v = f ? f->getVarByLevel(lvl) : lvl;
        m.setVars(unsigned(lvl), a[v], b[v]);
    }
}
static inline void setMintermRel(const forest* f, const Shape& sh, minterm& m, long from, long to) {
    std::vector<int> a, b; sh.decode(from, a); sh.decode(to, b);
    for (int lvl = 1; lvl <= sh.n(); lvl++) {
        int v = f ? f->getVarByLevel(lvl) : lvl;
        m.setVars(unsigned(lvl), a[v], b[v]);
    }
}

// Evaluate an edge at every point of the domain.
static inline Table evalAll(const World& w, const dd_edge& e) {
    forest* f = e.getForest();
    if (!f) throw Violation("harness:evalAll:no-forest", "edge has no forest");
    bool rel = f->isForRelations();
    Table t(size_t(w.tableSize(rel)));
    minterm m(f);
    rangeval rv;
    if (!rel) {
        for (long p = 0; p < w.N; p++) {
            setMintermSet(f, w.shape, m, p);
            e.evaluate(m, rv);
            t[size_t(p)] = fromRV(rv);
        }
    } else {
        for (long a = 0; a < w.N; a++) for (long b = 0; b < w.NP; b++) {
            setMintermRel(f, w.shape, w.shapeP, m, a, b);
            e.evaluate(m, rv);
            t[size_t(a * w.NP + b)] = fromRV(rv);
        }
    }
    return t;
}

static inline std::string pointStr(const World& w, bool rel, size_t idx) {
    std::vector<int> a;
    std::string s;
    if (!rel) {
        w.shape.decode(long(idx), a);
        s = "(";
        for (int v = w.shape.n(); v >= 1; v--) { s += tos(a[v]); if (v > 1) s += ","; }
        return s + ")";
    }
    std::vector<int> b;
    w.shape.decode(long(idx) / w.NP, a); w.shapeP.decode(long(idx) % w.NP, b);
    s = "(";
    for (int v = w.shape.n(); v >= 1; v--) { s += tos(a[v]); if (v > 1) s += ","; }
    s += ")->(";
    for (int v = w.shape.n(); v >= 1; v--) { s += tos(b[v]); if (v > 1) s += ","; }
    return s + ")";
}

// first index where two tables differ, or -1
static inline long firstDiff(const Table& a, const Table& b, const Tol& tol = EXACT) {
    if (a.size() != b.size()) return 0;
    for (size_t i = 0; i < a.size(); i++) if (!valEq(a[i], b[i], tol)) return long(i);
    return -1;
}

// Tolerance for a real-valued forest (DESIGN 2.3, "tolerance lane").
static inline Tol tolFor(const FSpec& f) {
    if (!f.isReal()) return EXACT;
    Tol t; t.abs = 2.5e-5; t.rel = 4e-6; return t;
}

// Throw a violation if an edge does not denote `expect` everywhere.
static inline void expectTable(const World& w, const dd_edge& e, const Table& expect, const Tol& tol,
                               const std::string& key, const std::string& ctx) {
    Table got = evalAll(w, e);
    long d = firstDiff(got, expect, tol);
    if (d >= 0) {
        bool rel = e.getForest()->isForRelations();
        throw Violation(key, ctx + ": at " + pointStr(w, rel, size_t(d)) + " library=" + got[size_t(d)].str()
                        + " model=" + expect[size_t(d)].str());
    }
}

// Build an edge for a table in forest f through the minterm-collection constructor, using every
// point whose value differs from the chosen background as an explicit minterm.
// (The construction path itself is the subject of C03; all other checks re-verify the result
//  pointwise before using it, see buildChecked.)
static inline bool valLess(const Val& a, const Val& b) {   // total order with INF largest
    if (a.isInf()) return false;
    if (b.isInf()) return true;
    if (a.k == Val::R) return a.r < b.r;
    return a.i < b.i;
}
static inline void buildFromTable(const World& w, forest* f, const Table& t, dd_edge& out,
                                  int mode = 0 /*0=auto,1=max,2=min*/) {
    bool rel = f->isForRelations();
    bool evp = f->isEVPlus() || f->isIndexSet();
    bool useMin = (mode == 2) || (mode == 0 && evp);
    // background value: min (for Max) or max (for Min) over the table, so the API's
    // precondition "default <= / >= all values" holds.
    Val bg = t[0];
    for (const Val& v : t) { if (useMin ? valLess(bg, v) : valLess(v, bg)) bg = v; }
    size_t cnt = 0;
    for (const Val& v : t) if (!valEq(v, bg)) cnt++;
    out.attach(f);
    minterm_coll mc(unsigned(cnt ? cnt : 1), f);
    for (size_t i = 0; i < t.size(); i++) {
        if (valEq(t[i], bg)) continue;
        minterm& m = mc.unused();
        if (!rel) setMintermSet(f, w.shape, m, long(i));
        else setMintermRel(f, w.shape, w.shapeP, m, long(i) / w.NP, long(i) % w.NP);
        m.setValue(toRV(t[i]));
        mc.pushUnused();
    }
    if (useMin) mc.buildFunctionMin(toRV(bg), out);
    else mc.buildFunctionMax(toRV(bg), out);
}
static inline void buildChecked(const World& w, forest* f, const FSpec& fs, const Table& t, dd_edge& out,
                                const std::string& who) {
    buildFromTable(w, f, t, out);
    expectTable(w, out, t, tolFor(fs), "harness-operand:" + fs.kindStr(), who + " operand construction");
}

// ------------------------------------------------------------------------------------
// Table generators
// ------------------------------------------------------------------------------------
// value alphabet for a forest kind
static inline std::vector<Val> alphabet(Rng& r, const FSpec& f, bool allowNeg = true, bool exactReals = false, bool tinyReals = false) {
    std::vector<Val> a;
    if (f.isBool()) { a.push_back(Val::b(true)); return a; }
    if (f.isInt()) {
        int k = r.range(1, 4);
        for (int i = 0; i < k; i++) {
            long v;
            switch (r.below(6)) {
                case 0: v = r.range(1, 3); break;
                case 1: v = r.range(1, 20); break;
                case 2: v = allowNeg ? -r.range(1, 20) : r.range(1, 9); break;
                case 3: v = r.range(100, 100000); break;
                case 4: v = allowNeg ? -r.range(100, 100000) : r.range(21, 99); break;
                default: v = r.range(1, 7); break;
            }
            a.push_back(Val::in(v));
        }
        if (f.isEVP() && r.chance(1, 2)) a.push_back(Val::in(0));
        return a;
    }
    int k = r.range(1, 4);
    for (int i = 0; i < k; i++) {
        double v;
        if (exactReals) v = 0.5 * r.range(allowNeg ? -12 : 1, 12);
        else switch (r.below((tinyReals && r.chance(1, 6)) ? 5 : 4)) {
            case 4: v = 1e-6 * r.range(allowNeg ? -9 : 1, 9); break;   // below the terminal precision (1e-5)
            case 0: v = 0.5 * r.range(allowNeg ? -12 : 1, 12); break;
            case 1: v = r.unit() * 10.0; break;
            case 2: v = allowNeg ? -r.unit() * 100.0 : r.unit() * 3.0; break;
            default: v = 0.25 * r.range(1, 40); break;
        }
        if (v == 0) v = 1.5;
        a.push_back(Val::re(double(float(v))));   // values representable in single precision
    }
    return a;
}

// Random table with the forest's default as background.
static inline Table randomTable(Rng& r, const World& w, const FSpec& f, const std::vector<Val>& alpha, int forceShape = -1, int forceSub = -1) {
    long n = w.tableSize(f.rel);
    Table t(size_t(n), f.deflt());
    int shape = int(r.below(8)); if (forceShape >= 0) shape = forceShape;
    auto val = [&]() { return alpha[r.below(alpha.size())]; };
    switch (shape) {
        case 0: break;                                           // constant default
        case 1: { Val v = val(); for (auto& x : t) x = v; break; }   // constant non-default
        case 2: {                                                // sparse
            long k = 1 + long(r.below(uint64_t(std::max<long>(1, n / 8))));
            for (long i = 0; i < k; i++) t[size_t(r.below(n))] = val();
            break;
        }
        case 3: {                                                // dense
            for (auto& x : t) if (r.chance(3, 4)) x = val();
            break;
        }
        case 4: {                                                // depends on one variable
            int v = r.range(1, w.shape.n());
            bool primed = f.rel && r.chance(1, 2);
            std::vector<Val> pv(size_t(w.shapeP.sizes[v]));
            for (auto& x : pv) x = r.chance(2, 3) ? val() : f.deflt();
            std::vector<int> a;
            for (long i = 0; i < n; i++) {
                long p = f.rel ? (primed ? i % w.NP : i / w.NP) : i;
                (f.rel && primed ? w.shapeP : w.shape).decode(p, a);
                t[size_t(i)] = pv[size_t(a[v])];
            }
            break;
        }
        case 5: {                                                // a few cubes (don't cares)
            int nc = r.range(1, 4);
            for (int c = 0; c < nc; c++) {
                std::vector<int> fx(size_t(w.shape.n() + 1), -1), tx(size_t(w.shape.n() + 1), -1);
                for (int v = 1; v <= w.shape.n(); v++) {
                    if (r.chance(1, 2)) fx[size_t(v)] = r.range(0, w.shape.sizes[v] - 1);
                    if (f.rel) {
                        int m = int(r.below(3));
                        if (m == 0) tx[size_t(v)] = r.range(0, w.shapeP.sizes[v] - 1);
                        else if (m == 1) tx[size_t(v)] = -2;   // unchanged
                    }
                }
                Val cv = val();
                std::vector<int> a, b;
                for (long i = 0; i < n; i++) {
                    bool ok = true;
                    if (!f.rel) {
                        w.shape.decode(i, a);
                        for (int v = 1; v <= w.shape.n() && ok; v++) if (fx[size_t(v)] >= 0 && a[v] != fx[size_t(v)]) ok = false;
                    } else {
                        w.shape.decode(i / w.NP, a); w.shapeP.decode(i % w.NP, b);
                        for (int v = 1; v <= w.shape.n() && ok; v++) {
                            if (fx[size_t(v)] >= 0 && a[v] != fx[size_t(v)]) ok = false;
                            if (tx[size_t(v)] >= 0 && b[v] != tx[size_t(v)]) ok = false;
                            if (tx[size_t(v)] == -2 && b[v] != a[v]) ok = false;
                        }
                    }
                    if (ok) t[size_t(i)] = cv;
                }
            }
            break;
        }
        case 6: {                                                // identity-ish (relations) / half (sets)
            if (f.rel) {
                // identity on a subset of variables, random elsewhere
                std::vector<bool> idv(size_t(w.shape.n() + 1));
                for (int v = 1; v <= w.shape.n(); v++) idv[size_t(v)] = r.chance(2, 3);
                std::vector<int> a, b;
                Val cv = val();
                // sub-modes: 0 = pattern with holes and mixed values; 1 = the exact pattern with one value (identity-reduced forests
                // store it as level-skipping edges); 2 = block diagonal: the value depends on the from-value of one identity variable
                int sub = int(r.below(3)); if (forceSub >= 0) sub = forceSub;
                int bv = 0; for (int v = w.shape.n(); v >= 1; v--) if (idv[size_t(v)]) { bv = v; if (r.chance(1, 2)) break; }
                if (!bv) { bv = r.range(1, w.shape.n()); idv[size_t(bv)] = true; }
                std::vector<Val> blockVal(size_t(w.shape.sizes[size_t(bv)])); for (auto& x : blockVal) x = val();
                for (long i = 0; i < n; i++) {
                    w.shape.decode(i / w.NP, a); w.shapeP.decode(i % w.NP, b);
                    bool ok = true;
                    for (int v = 1; v <= w.shape.n() && ok; v++) if (idv[size_t(v)] && a[v] != b[v]) ok = false;
                    if (!ok) continue;
                    if (sub == 0) { if (r.chance(7, 8)) t[size_t(i)] = r.chance(3, 4) ? cv : val(); }
                    else if (sub == 1) t[size_t(i)] = cv;
                    else t[size_t(i)] = blockVal[size_t(a[size_t(bv)])];
                }
            } else {
                for (long i = 0; i < n / 2; i++) t[size_t(i)] = val();
            }
            break;
        }
        default: {                                               // medium density
            for (auto& x : t) if (r.chance(1, 3)) x = val();
            break;
        }
    }
    return t;
}

// ------------------------------------------------------------------------------------
// Case context, counters and worker main
// ------------------------------------------------------------------------------------
// Record what the case is about to do (coarse, stable text such as "INTERSECTION:IR,IR->FR").  If the
// process dies, the driver puts the last phase into the violation key of the sanitizer report.
static std::string g_phase;
static inline void phase(const std::string& p) {
    g_phase = p;
    if (g_out) { fprintf(g_out, "{\"t\":\"phase\",\"p\":%s}\n", jstr(p).c_str()); fflush(g_out); }
}

struct Ctx {
    const char* prop;
    uint64_t seed;
    long idx;
    bool thorough;
    Rng rng;
    std::map<std::string, long> counters;   // per-case monitor observations (summed by driver)
    std::string sig;                        // signature for distinctness
    bool nontrivial = false;
    std::string sample;                     // JSON object text describing the case (optional)
    std::vector<std::pair<std::string, std::string>> softViolations; // (key, detail): reported, case continues
    std::vector<std::string> unsupported;
    void count(const std::string& k, long d = 1) { counters[k] += d; }
    void viol(const std::string& key, const std::string& detail) { softViolations.emplace_back(key, detail); if (g_out) { fputs("{\"t\":\"continuing\"}\n", g_out); fflush(g_out); } }   // a verdict recorded softly: the case goes on, a later crash is its own event
};

typedef void (*CaseFn)(Ctx&);

static inline void safeCleanup() {
    try { if (initializer_list::libraryIsRunning()) MEDDLY::cleanup(); } catch (...) {}
}

// Runs cases [lo,hi) ; one JSON line per case to `out`.
static inline int workerMain(int argc, char** argv, const char* prop, CaseFn fn) {
    uint64_t seed = 20260922; long lo = 0, hi = 1; bool thorough = false; const char* outp = nullptr;
    long nsamples = 2; unsigned caseTimeout = 150;   // generous per-case wall-clock watchdog (SIGALRM -> the driver reports 'inconclusive', retries once)
    for (int i = 1; i < argc; i++) {
        std::string a = argv[i];
        if (a == "--seed" && i + 1 < argc) seed = strtoull(argv[++i], nullptr, 10);
        else if (a == "--lo" && i + 1 < argc) lo = atol(argv[++i]);
        else if (a == "--hi" && i + 1 < argc) hi = atol(argv[++i]);
        else if (a == "--tier" && i + 1 < argc) thorough = (std::string(argv[++i]) == "thorough");
        else if (a == "--out" && i + 1 < argc) outp = argv[++i];
        else if (a == "--samples" && i + 1 < argc) nsamples = atol(argv[++i]);
        else if (a == "--case-timeout" && i + 1 < argc) caseTimeout = unsigned(atol(argv[++i]));
    }
    FILE* out = outp ? fopen(outp, "a") : stdout;
    if (!out) { fprintf(stderr, "cannot open %s\n", outp); return 2; }
    g_out = out;
    for (long idx = lo; idx < hi; idx++) {
        fprintf(out, "{\"t\":\"begin\",\"idx\":%ld}\n", idx); fflush(out);
        alarm(caseTimeout);
        Ctx c; c.prop = prop; c.seed = seed; c.idx = idx; c.thorough = thorough;
        c.rng.reseed(caseSeed(seed, prop, idx));
        g_phase.clear();
        std::string verdict = "ok", key, detail;
        try {
            fn(c);
        } catch (Violation& v) {
            verdict = "viol"; key = v.key; detail = v.detail;
        } catch (Unsupported& u) {
            verdict = "unsupported"; detail = u.what;
        } catch (MEDDLY::error& e) {
            verdict = "viol"; key = std::string(prop) + ":" + (g_phase.empty() ? std::string() : g_phase + ":") + "unexpected-error:" + e.getName();
            detail = std::string("unexpected MEDDLY::error ") + e.getName() + " at " +
                     (e.getFile() ? e.getFile() : "?") + ":" + tos(e.getLine());
        } catch (std::exception& e) {
            verdict = "harness"; detail = std::string("std::exception ") + e.what();
        } catch (const char* s) {
            verdict = "viol"; key = "unexpected-throw"; detail = std::string("threw const char*: ") + s;
        }
        safeCleanup();
        alarm(0);
        std::string line = "{\"t\":\"case\",\"idx\":" + tos(idx) + ",\"verdict\":" + jstr(verdict);
        if (!key.empty()) line += ",\"key\":" + jstr(key);
        if (!detail.empty()) line += ",\"detail\":" + jstr(detail);
        if (!c.softViolations.empty()) {
            line += ",\"soft\":[";
            for (size_t i = 0; i < c.softViolations.size(); i++) {
                if (i) line += ",";
                line += "{\"key\":" + jstr(c.softViolations[i].first) + ",\"detail\":" + jstr(c.softViolations[i].second) + "}";
            }
            line += "]";
        }
        line += ",\"nontrivial\":" + std::string(c.nontrivial ? "true" : "false");
        line += ",\"sig\":" + jstr(c.sig);
        line += ",\"counters\":{";
        bool first = true;
        for (auto& kv : c.counters) { if (!first) line += ","; first = false; line += jstr(kv.first) + ":" + tos(kv.second); }
        line += "}";
        if (!c.sample.empty() && (idx - lo < nsamples || verdict != "ok" || !c.softViolations.empty())) line += ",\"sample\":" + c.sample;
        line += "}\n";
        fputs(line.c_str(), out); fflush(out);
    }
    if (out != stdout) fclose(out);
    return 0;
}

} // namespace V
#endif

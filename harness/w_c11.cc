// C11: enumeration and counting agree with the function.
//   iterator: visits exactly the non-default assignments (matching the mask), each once, in
//   lexicographic order (top variable most significant, unprimed before primed), with the value;
//   CARDINALITY in long / double / mpz; node and edge counts vs an independent graph walk.
#include "audit.h"
#include <gmp.h>
using namespace V;

struct Mask { std::vector<int> from, to; };   // -1 free, >=0 fixed, (to) -2 = unchanged

static bool isDefault(const Val& v, const FSpec& fs) {
    if (fs.isEVP()) return v.isInf();
    if (v.k == Val::R) return v.r == 0;
    return v.i == 0;
}

static void graphWalk(forest* f, node_handle root, unsigned long& nodes, unsigned long& edges) {
    std::set<node_handle> seen; std::vector<node_handle> st;
    nodes = edges = 0;
    if (root > 0) { st.push_back(root); seen.insert(root); }
    while (!st.empty()) {
        node_handle p = st.back(); st.pop_back();
        nodes++;
        UnpackedGuard S(unpacked_node::newFromNode(f, p, SPARSE_ONLY));
        edges += S->getSize();
        for (unsigned z = 0; z < S->getSize(); z++) { node_handle d = S->down(z); if (d > 0 && seen.insert(d).second) st.push_back(d); }
    }
}

static void run(Ctx& c) {
    Rng& r = c.rng;
    bool rel = r.chance(1, 2);
    Shape sh = rel ? randomShapeW(r, 1, 4, 4, 36) : randomShapeW(r, 1, 5, 5, 1024);
    if (sh.sizes.size() > 1 && *std::max_element(sh.sizes.begin(), sh.sizes.end()) >= 10) c.count("wide_variable_shapes");
    std::vector<FSpec> kinds = allKinds(rel);
    FSpec fs = kinds[r.below(kinds.size())];
    randomPolicy(r, fs);
    Tol tol = tolFor(fs); if (fs.isEVT()) { tol.abs = 1e-6; tol.rel = 3e-5; }
    MEDDLY::initialize();
    World w(sh);
    forest* f = makeForest(w.dom, fs);
    const int n = sh.n();
    // the variable order is part of the forest's state: one case in three works in a forest with a random order
    // (mask / iterator positions are LEVELS; level i holds variable getVarByLevel(i))
    if (n >= 2 && (fs.isMT() || (!rel && fs.isEVP())) && r.chance(1, 3)) {
        std::vector<int> l2v(size_t(n + 1), 0), perm; for (int i = 1; i <= n; i++) perm.push_back(i);
        r.shuffle(perm); for (int i = 1; i <= n; i++) l2v[size_t(i)] = perm[size_t(i - 1)];
        phase("reorder-empty-forest:" + fs.kindStr());
        try { f->reorderVariables(l2v.data()); c.count("cases_in_reordered_forest"); }
        catch (MEDDLY::error& e) { if (e.getCode() != error::NOT_IMPLEMENTED) throw; }
    }
    std::vector<int> varAt(size_t(n + 1), 0), levelOf(size_t(n + 1), 0);
    for (int i = 1; i <= n; i++) { varAt[size_t(i)] = f->getVarByLevel(i); levelOf[size_t(varAt[size_t(i)])] = i; }
    int nfun = r.range(1, 4);
    uint64_t sig = 0; bool nontriv = false; std::string desc;
    for (int fi = 0; fi < nfun; fi++) {
        std::vector<Val> alpha = alphabet(r, fs, true, fs.isReal());
        Table t = randomTable(r, w, fs, alpha);
        // MT real / EV*: keep values clear of 0 so "non-default" is unambiguous
        dd_edge e(f);
        buildChecked(w, f, fs, t, e, "C11");
        // expected non-default points
        std::vector<size_t> nz;
        for (size_t i = 0; i < t.size(); i++) if (!isDefault(t[i], fs)) nz.push_back(i);
        const std::string kb = "C11:" + fs.kindStr();
        // ---------------- iteration, several masks ----------------
        int nmasks = r.range(1, 4);
        for (int mi = 0; mi < nmasks; mi++) {
            Mask M; M.from.assign(size_t(n + 1), -1); M.to.assign(size_t(n + 1), -1);
            bool useMask = mi > 0;
            if (useMask) for (int v = 1; v <= n; v++) {
                if (r.chance(1, 3)) M.from[size_t(v)] = r.range(0, sh.sizes[size_t(v)] - 1);
                if (rel) { int k = int(r.below(6)); if (k == 0) M.to[size_t(v)] = r.range(0, sh.sizes[size_t(v)] - 1); else if (k == 1 && M.from[size_t(v)] == -1) M.to[size_t(v)] = -2; }
            }
            minterm mask(f);
            for (int v = 1; v <= n; v++) {
                int fv = M.from[size_t(v)] < 0 ? DONT_CARE : M.from[size_t(v)];
                if (!rel) mask.setVar(unsigned(levelOf[size_t(v)]), fv);
                else mask.setVars(unsigned(levelOf[size_t(v)]), fv, M.to[size_t(v)] == -1 ? DONT_CARE : M.to[size_t(v)] == -2 ? DONT_CHANGE : M.to[size_t(v)]);
            }
            // model: matching non-default points in key order
            std::vector<std::pair<std::vector<int>, size_t>> expect;   // (key, point)
            std::vector<int> a, b;
            for (size_t p : nz) {
                if (!rel) { sh.decode(long(p), a); b = a; } else { sh.decode(long(p) / w.N, a); sh.decode(long(p) % w.N, b); }
                bool ok = true;
                for (int v = 1; v <= n && ok; v++) {
                    if (M.from[size_t(v)] >= 0 && a[size_t(v)] != M.from[size_t(v)]) ok = false;
                    if (rel) { if (M.to[size_t(v)] >= 0 && b[size_t(v)] != M.to[size_t(v)]) ok = false; if (M.to[size_t(v)] == -2 && b[size_t(v)] != a[size_t(v)]) ok = false; }
                }
                if (!ok) continue;
                std::vector<int> key;
                for (int lv = n; lv >= 1; lv--) { int v = varAt[size_t(lv)]; key.push_back(a[size_t(v)]); if (rel) key.push_back(b[size_t(v)]); }
                expect.emplace_back(key, p);
            }
            std::sort(expect.begin(), expect.end());
            // library
            phase("iterate:" + fs.kindStr() + (useMask ? ":mask" : ":nomask"));
            size_t k = 0;
            std::string mdesc = useMask ? " with mask" : "";
            for (dd_edge::iterator it = e.begin(useMask ? &mask : nullptr); it; ++it, ++k) {
                const minterm& m = *it;
                for (int lv = 1; lv <= n; lv++) { int v = varAt[size_t(lv)]; a[size_t(v)] = m.from(lv); if (rel) { int tv = m.to(lv); b[size_t(v)] = (tv == DONT_CHANGE) ? m.from(lv) : tv; } }
                for (int v = 1; v <= n; v++) if (a[size_t(v)] < 0 || a[size_t(v)] >= sh.sizes[size_t(v)] || (rel && (b[size_t(v)] < 0 || b[size_t(v)] >= sh.sizes[size_t(v)])))
                    throw Violation(kb + ":iterator:value-out-of-range", "iterator" + mdesc + " produced an assignment outside the domain (variable " + tos(v) + ") for " + tableStr(t, 32) + " shape " + sh.str());
                size_t p = rel ? size_t(sh.encode(a) * w.N + sh.encode(b)) : size_t(sh.encode(a));
                if (k >= expect.size())
                    throw Violation(kb + ":iterator:extra-visit", "iterator" + mdesc + " visits more than the " + tos(expect.size()) + " expected assignments; extra: " + pointStr(w, rel, p) + " for " + tableStr(t, 32) + " shape " + sh.str());
                if (p != expect[k].second)
                    throw Violation(kb + ":iterator:wrong-order-or-element", "iterator" + mdesc + " visit #" + tos(k) + " is " + pointStr(w, rel, p) + ", expected " + pointStr(w, rel, expect[k].second) + " for " + tableStr(t, 32) + " shape " + sh.str() + " in " + fs.str());
                Val got = fromRV(m.getValue());
                if (!valEq(got, t[p], tol))
                    throw Violation(kb + ":iterator:wrong-value", "iterator" + mdesc + " reports value " + got.str() + " at " + pointStr(w, rel, p) + ", function value " + t[p].str());
                if (k > size_t(t.size())) break;
            }
            if (k != expect.size())
                throw Violation(kb + ":iterator:missing-visit", "iterator" + mdesc + " visited " + tos(k) + " assignments, expected " + tos(expect.size()) + " for " + tableStr(t, 32) + " shape " + sh.str() + " in " + fs.str());
            c.count(useMask ? "masked_iterations" : "full_iterations");
            c.count("assignments_visited", long(k));
            if (useMask && k > 0 && k < nz.size()) c.count("masks_selecting_proper_subset");
        }
        // exhausted iterator must raise INVALID_ITERATOR on dereference
        {
            dd_edge::iterator it = e.begin();
            while (it) ++it;
            bool ok = false;
            try { const minterm& m = *it; (void)m; } catch (MEDDLY::error& er) { ok = er.getCode() == error::INVALID_ITERATOR; }
            if (!ok) throw Violation(kb + ":iterator:exhausted-deref", "dereferencing an exhausted iterator did not raise INVALID_ITERATOR");
        }
        // ---------------- cardinality ----------------
        {
            phase("CARDINALITY:" + fs.kindStr());
            long cl = -1; double cd = -1; mpz_t cz; mpz_init(cz);
            apply(CARDINALITY, e, cl);
            apply(CARDINALITY, e, cd);
            apply(CARDINALITY, e, cz);
            long want = long(nz.size());
            long czl = mpz_get_si(cz); mpz_clear(cz);
            if (cl != want || cd != double(want) || czl != want)
                throw Violation(kb + ":cardinality", "CARDINALITY long=" + tos(cl) + " double=" + tos(cd) + " mpz=" + tos(czl) + ", non-default assignments " + tos(want) + " for " + tableStr(t, 32) + " shape " + sh.str() + " in " + fs.str());
            c.count("cardinalities");
        }
        // ---------------- node / edge counts ----------------
        {
            unsigned long wn, we; graphWalk(f, e.getNode(), wn, we);
            unsigned long gn = e.getNodeCount(), ge = e.getEdgeCount(), gz = e.getEdgeCount(true);
            if (gn != wn) throw Violation(kb + ":node-count", "getNodeCount()=" + tos(gn) + ", reachable nodes " + tos(wn));
            if (ge != we) throw Violation(kb + ":edge-count", "getEdgeCount()=" + tos(ge) + ", non-transparent edges of reachable nodes " + tos(we));
            if (gz < ge) throw Violation(kb + ":edge-count-zeroes", "getEdgeCount(true)=" + tos(gz) + " < getEdgeCount(false)=" + tos(ge));
            c.count("graph_counts");
        }
        if (nz.size() > 1 && nz.size() < t.size()) nontriv = true;
        sig = sig * 1000003ULL ^ tableHash(t);
        if (desc.size() < 200) desc += tableStr(t, 12) + "; ";
    }
    auditForest(f, fs.kindStr(), c, "C11");
    c.count("kind:" + fs.kindStr());
    c.nontrivial = nontriv;
    c.sig = tos(sig ^ hashstr(fs.str().c_str()) ^ hashstr(sh.str().c_str()));
    c.sample = "{\"shape\":" + jstr(sh.str()) + ",\"forest\":" + jstr(fs.str()) + ",\"functions\":" + jstr(desc) + "}";
    MEDDLY::cleanup();
}

int main(int argc, char** argv) { return workerMain(argc, argv, "C11", run); }

// C09: one-step images and vector-matrix products follow the relational definition.
#include "audit.h"
#include "opsmodel.h"
#include "relmodel.h"
using namespace V;

static Table randomRelation(Rng& r, const World& w, const FSpec& frel, std::string& desc) {
    int k = int(r.below(4));
    if (r.chance(1, 14)) { desc = "complete"; return Table(size_t(w.N * w.N), Val::b(true)); }
    if (k == 0) { std::vector<Val> a = {Val::b(true)}; desc = "random-table"; return randomTable(r, w, frel, a); }
    int ne = r.range(1, 4); std::vector<Table> ts;
    desc = "events";
    for (int i = 0; i < ne; i++) { Event e = randomEvent(r, w.shape, int(r.below(3))); desc += " " + eventStr(e, w.shape); ts.push_back(eventTable(w, e)); }
    return unionTables(ts, size_t(w.N * w.N));
}

static void run(Ctx& c) {
    Rng& r = c.rng;
    Shape sh = randomShape(r, 1, 4, 4, 36);
    MEDDLY::initialize();
    World w(sh);
    const long N = w.N;
    reduction_rule RR[] = {reduction_rule::FULLY_REDUCED, reduction_rule::QUASI_REDUCED, reduction_rule::IDENTITY_REDUCED};
    int mode = int(r.below(5));   // 0 bool image, 1 MT int distance image, 2 EV+ distance image, 3 VM/MV int, 4 VM/MV real
    uint64_t sig = 0; bool nontriv = false; std::string sample;
    int reps = r.range(1, 3);
    if (mode <= 2) {
        FSpec frel = mkSpec(true, range_type::BOOLEAN, edge_labeling::MULTI_TERMINAL, RR[r.below(3)]); randomPolicy(r, frel);
        FSpec fin, fout;
        if (mode == 0) { fin = mkSpec(false, range_type::BOOLEAN, edge_labeling::MULTI_TERMINAL, RR[r.below(2)]); fout = fin; fout.rr = RR[r.below(2)]; }
        else if (mode == 1) { fin = mkSpec(false, range_type::INTEGER, edge_labeling::MULTI_TERMINAL, RR[r.below(2)]); fout = fin; fout.rr = reduction_rule::FULLY_REDUCED; }
        else { fin = mkSpec(false, range_type::INTEGER, edge_labeling::EVPLUS, RR[r.below(2)]); fout = fin; fout.rr = RR[r.below(2)]; }
        randomPolicy(r, fin); randomPolicy(r, fout);
        forest* FR = makeForest(w.dom, frel); forest* FI = makeForest(w.dom, fin);
        forest* FO = r.chance(1, 3) ? FI : makeForest(w.dom, fout);
        if (FO == FI) fout = fin;
        if (mode == 1 && fout.rr != reduction_rule::FULLY_REDUCED) { FO = makeForest(w.dom, (fout = mkSpec(false, range_type::INTEGER, edge_labeling::MULTI_TERMINAL, reduction_rule::FULLY_REDUCED))); }
        for (int rep = 0; rep < reps; rep++) {
            std::string rdesc; Table tr = randomRelation(r, w, frel, rdesc);
            dd_edge er(FR); buildChecked(w, FR, frel, tr, er, "C09");
            // operand
            Table ts(static_cast<size_t>(N));
            for (long i = 0; i < N; i++) {
                if (mode == 0) ts[size_t(i)] = Val::b(r.chance(1, 3));
                else if (mode == 1) ts[size_t(i)] = r.chance(1, 2) ? Val::in(r.chance(1, 4) ? -3 : -1) : Val::in(r.range(0, 6));
                else ts[size_t(i)] = r.chance(1, 2) ? Val::inf() : Val::in(r.range(0, 9));
            }
            if (r.chance(1, 8)) for (auto& v : ts) v = (mode == 0) ? Val::b(false) : (mode == 1 ? Val::in(-1) : Val::inf());   // nothing reachable
            else if (r.chance(1, 8)) { Val cv = (mode == 0) ? Val::b(true) : Val::in(r.range(0, 3)); for (auto& v : ts) v = cv; }        // constant operand
            else if (r.chance(1, 8)) { long half = N / 2; for (long i = 0; i < N; i++) ts[size_t(i)] = (i < half) ? ((mode == 0) ? Val::b(true) : Val::in(0)) : ((mode == 0) ? Val::b(false) : (mode == 1 ? Val::in(-1) : Val::inf())); }
            dd_edge es(FI); buildChecked(w, FI, fin, ts, es, "C09");
            for (int fwd = 0; fwd < 2; fwd++) {
                dd_edge res(FO);
                std::string kb = std::string("C09:") + (fwd ? "POST_IMAGE" : "PRE_IMAGE") + ":" + (mode == 0 ? "bool" : mode == 1 ? "MTdist" : "EV+dist") + ":rel=" + shortNameOf(frel.rr) + ":" + shortNameOf(fin.rr) + "->" + shortNameOf(fout.rr);
                std::string ctx = kb + " shape " + sh.str() + " relation(" + rdesc + ")=" + tableStr(tr, 40) + " operand=" + tableStr(ts, 40) + " forests " + fin.str() + " x " + frel.str() + " -> " + fout.str();
                if (!applyBin(c, fwd ? POST_IMAGE() : PRE_IMAGE(), es, er, res)) continue;
                Table got = evalAll(w, res);
                c.count("points_evaluated", long(got.size()));
                for (long y = 0; y < N; y++) {
                    bool any = false; long best = 0;
                    for (long x = 0; x < N; x++) {
                        bool edge = fwd ? tr[size_t(x * N + y)].truthy() : tr[size_t(y * N + x)].truthy();
                        if (!edge) continue;
                        const Val& sv = ts[size_t(x)];
                        if (mode == 0) { if (sv.truthy()) any = true; }
                        else if (mode == 1) { if (sv.i >= 0) { if (!any || sv.i < best) best = sv.i; any = true; } }
                        else { if (!sv.isInf()) { if (!any || sv.i < best) best = sv.i; any = true; } }
                    }
                    const Val& g = got[size_t(y)];
                    bool ok;
                    if (mode == 0) ok = (g.k == Val::B && g.truthy() == any);
                    else if (mode == 1) ok = any ? (g.k == Val::I && g.i == best + 1) : (g.k == Val::I && g.i < 0);
                    else ok = any ? (g.k == Val::I && g.i == best + 1) : g.isInf();
                    if (!ok) throw Violation(kb + ":wrong-value", ctx + ": at state " + pointStr(w, false, size_t(y)) + " library=" + g.str() + " model=" +
                                             (mode == 0 ? std::string(any ? "T" : "F") : any ? tos(best + 1) : std::string(mode == 1 ? "negative" : "inf")));
                }
                c.count(fwd ? "post_images" : "pre_images");
                try { auditForest(FO, fout.kindStr(), c, "C09"); }
                catch (Violation& v) { throw Violation(kb + ":result-forest-not-canonical:" + v.key.substr(v.key.find(":audit:") + 7), ctx + ": after the call, " + v.detail); }
                c.count(std::string("image_mode_") + (mode == 0 ? "bool" : mode == 1 ? "mtdist" : "evplus"));
                expectTable(w, es, ts, EXACT, kb + ":operand-changed", ctx);
                expectTable(w, er, tr, EXACT, kb + ":operand-changed", ctx);
            }
            sig = sig * 1000003ULL ^ tableHash(tr) ^ (tableHash(ts) << 1);
            bool anyr = false; for (auto& v : tr) if (v.truthy()) anyr = true;
            if (anyr) nontriv = true;
            if (sample.empty()) sample = "{\"mode\":" + jstr(mode == 0 ? "boolean image" : mode == 1 ? "MT distance image" : "EV+ distance image") + ",\"shape\":" + jstr(sh.str()) + ",\"relation\":" + jstr(rdesc) + ",\"operand\":" + jstr(tableStr(ts, 24)) + "}";
        }
        auditForest(FR, frel.kindStr(), c, "C09"); auditForest(FI, fin.kindStr(), c, "C09"); if (FO != FI) auditForest(FO, fout.kindStr(), c, "C09");
    } else {
        const bool real = mode == 4;
        range_type rt = real ? range_type::REAL : range_type::INTEGER;
        FSpec fm = mkSpec(true, rt, edge_labeling::MULTI_TERMINAL, RR[r.below(3)]); randomPolicy(r, fm);
        FSpec fv = mkSpec(false, rt, edge_labeling::MULTI_TERMINAL, RR[r.below(2)]); randomPolicy(r, fv);
        FSpec fo = fv; fo.rr = RR[r.below(2)]; randomPolicy(r, fo);
        forest* FM = makeForest(w.dom, fm); forest* FV = makeForest(w.dom, fv); forest* FO = r.chance(1, 3) ? FV : makeForest(w.dom, fo);
        if (FO == FV) fo = fv;
        Tol tol = real ? Tol{1e-4, 1e-5} : EXACT;
        for (int rep = 0; rep < reps; rep++) {
            auto val = [&]() { return real ? Val::re(0.5 * r.range(-6, 6)) : Val::in(r.range(-6, 6)); };
            std::vector<Val> alpha; for (int i = 0; i < 3; i++) { Val v = val(); if ((real ? v.r == 0 : v.i == 0)) v = real ? Val::re(1.5) : Val::in(2); alpha.push_back(v); }
            Table tm = randomTable(r, w, fm, alpha);
            Table tv = randomTable(r, w, fv, alpha);
            dd_edge em(FM), ev(FV);
            buildChecked(w, FM, fm, tm, em, "C09"); buildChecked(w, FV, fv, tv, ev, "C09");
            for (int vm = 0; vm < 2; vm++) {
                dd_edge res(FO);
                std::string kb = std::string("C09:") + (vm ? "VM_MULTIPLY" : "MV_MULTIPLY") + (real ? ":real" : ":int") + ":mat=" + shortNameOf(fm.rr) + ":" + shortNameOf(fv.rr) + "->" + shortNameOf(fo.rr);
                std::string ctx = kb + " shape " + sh.str() + " matrix=" + tableStr(tm, 40) + " vector=" + tableStr(tv, 40);
                bool ok = vm ? applyBin(c, VM_MULTIPLY(), ev, em, res) : applyBin(c, MV_MULTIPLY(), em, ev, res);
                if (!ok) continue;
                Table want(static_cast<size_t>(N));
                for (long j = 0; j < N; j++) {
                    double acc = 0; long iacc = 0;
                    for (long i = 0; i < N; i++) {
                        const Val& mv = vm ? tm[size_t(i * N + j)] : tm[size_t(j * N + i)];
                        const Val& vv = tv[size_t(i)];
                        if (real) acc += mv.r * vv.r; else iacc += mv.i * vv.i;
                    }
                    want[size_t(j)] = real ? Val::re(acc) : Val::in(iacc);
                }
                Table got = evalAll(w, res);
                c.count("points_evaluated", long(got.size()));
                long d = firstDiff(got, want, tol);
                if (d >= 0) throw Violation(kb + ":wrong-value", ctx + ": at " + pointStr(w, false, size_t(d)) + " library=" + got[size_t(d)].str() + " model=" + want[size_t(d)].str());
                c.count(vm ? "vm_multiplies" : "mv_multiplies");
                try { auditForest(FO, fo.kindStr(), c, "C09"); }
                catch (Violation& v) { throw Violation(kb + ":result-forest-not-canonical:" + v.key.substr(v.key.find(":audit:") + 7), ctx + ": after the call, " + v.detail); }
                expectTable(w, em, tm, tolFor(fm), kb + ":operand-changed", ctx);
                expectTable(w, ev, tv, tolFor(fv), kb + ":operand-changed", ctx);
                bool nz = false; for (auto& v : want) if (real ? v.r != 0 : v.i != 0) nz = true;
                if (nz) nontriv = true;
            }
            sig = sig * 1000003ULL ^ tableHash(tm) ^ (tableHash(tv) << 1);
            if (sample.empty()) sample = "{\"mode\":" + jstr(real ? "real vector-matrix products" : "integer vector-matrix products") + ",\"shape\":" + jstr(sh.str()) + ",\"matrix\":" + jstr(tableStr(tm, 24)) + ",\"vector\":" + jstr(tableStr(tv, 16)) + "}";
        }
        auditForest(FM, fm.kindStr(), c, "C09"); auditForest(FV, fv.kindStr(), c, "C09"); if (FO != FV) auditForest(FO, fo.kindStr(), c, "C09");
    }
    c.nontrivial = nontriv;
    c.sig = tos(sig ^ hashstr(sh.str().c_str()) ^ uint64_t(mode));
    c.sample = sample.empty() ? "{}" : sample;
    MEDDLY::cleanup();
}

int main(int argc, char** argv) { return workerMain(argc, argv, "C09", run); }

// Monitors that walk a live forest at a quiescent point (between API calls).
//   M1  structural audit (C02 clauses; reused by most scripted workloads)
//   M2  reference-count recount (C06)
//   M3  cache-count recount (C07)
//   M5  handle life-cycle monitor (hook in node_headers, C06/C07)
// Every clause is taken literally from the property statements; nothing is asserted about
// which storage form a node uses, about handle numbering or about chain order.
#ifndef VAUDIT_H
#define VAUDIT_H

#include "vcommon.h"
#include "unique_table.h"
#include "compute_table.h"

namespace V {

static inline uint64_t evBits(const edge_value& e) {
    switch (e.getType()) {
        case edge_type::VOID: return 0;
        case edge_type::INT: return uint64_t(int(e));
        case edge_type::LONG: return uint64_t(long(e));
        case edge_type::FLOAT: { float f = float(e); uint32_t b; memcpy(&b, &f, 4); return b; }
        default: { double d = double(e); uint64_t b; memcpy(&b, &d, 8); return b; }
    }
}
static inline std::string evStr(const edge_value& e) {
    switch (e.getType()) {
        case edge_type::VOID: return "";
        case edge_type::INT: return tos(int(e));
        case edge_type::LONG: return tos(long(e));
        case edge_type::FLOAT: { char b[40]; snprintf(b, 40, "%.9g", double(float(e))); return b; }
        default: { char b[40]; snprintf(b, 40, "%.17g", double(e)); return b; }
    }
}

struct NodeEntry { unsigned idx; node_handle down; uint64_t ev; };
static inline bool operator<(const NodeEntry& a, const NodeEntry& b) {
    if (a.idx != b.idx) return a.idx < b.idx;
    if (a.down != b.down) return a.down < b.down;
    return a.ev < b.ev;
}
static inline bool operator==(const NodeEntry& a, const NodeEntry& b) {
    return a.idx == b.idx && a.down == b.down && a.ev == b.ev;
}

struct AuditOpts {
    bool refcounts = true;     // M2 (only sound when no call of the history threw)
    bool cachecounts = true;   // M3
    bool find = true;          // unique-table lookups (moves chains; harmless)
};

struct UnpackedGuard {
    unpacked_node* u;
    explicit UnpackedGuard(unpacked_node* x) : u(x) {}
    ~UnpackedGuard() { if (u) unpacked_node::Recycle(u); }
    unpacked_node* operator->() { return u; }
    unpacked_node& operator*() { return *u; }
};

static inline std::string nodeStr(forest* f, node_handle p) {
    std::string s = "node " + tos(p) + " level " + tos(f->getNodeLevel(p)) + " [";
    UnpackedGuard S(unpacked_node::newFromNode(f, p, SPARSE_ONLY));
    for (unsigned z = 0; z < S->getSize(); z++) {
        if (z) s += " ";
        s += tos(S->index(z)) + ":";
        if (S->hasEdges()) s += "<" + evStr(S->edgeval(z)) + ">";
        s += tos(S->down(z));
    }
    return s + "]";
}

// Is the real terminal handle a fixed point of the forest's rounding to its terminal precision?
static inline bool realTerminalIsRounded(node_handle h, double prec) {
    if (h == 0 || prec <= 0) return true;
    terminal T(terminal_type::REAL, h);
    double v = T.getReal();
    terminal R(float(std::round(v / prec) * prec));
    return R.getHandle() == h;
}

// M1 + (optionally) M2, M3.  Throws Violation on the first failed clause.
// `P` is the property id used as key prefix; `fs` describes the forest.
static inline void auditForest(forest* f, const std::string& kind, Ctx& c, const std::string& P,
                               const AuditOpts& o = AuditOpts()) {
    const bool rel = f->isForRelations();
    const int L = int(f->getNumVariables());
    const node_handle last = f->getLastNode();
    const bool quasi = f->isQuasiReduced(), fully = f->isFullyReduced(), ident = f->isIdentityReduced();
    const bool evp = f->isEVPlus() || f->isIndexSet();
    const bool evt = f->isEVTimes();
    const bool mtreal = f->isMultiTerminal() && f->getRangeType() == range_type::REAL;
    const node_handle tnode = f->getTransparentNode();
    auto K = [&](const char* clause) { return P + ":audit:" + clause + ":" + kind; };

    long nactive = 0;
    std::map<std::pair<int, std::vector<NodeEntry>>, node_handle> content;
    std::vector<unsigned long> recount(size_t(last) + 1, 0);
    // singleton primed nodes (identity-reduced): handle -> index
    std::map<node_handle, unsigned> singleton;
    std::vector<std::vector<NodeEntry>> allEntries(size_t(last) + 1);

    for (node_handle p = 1; p <= last; p++) {
        if (!f->isActiveNode(p)) continue;
        nactive++;
        const int k = f->getNodeLevel(p);
        if (k == 0 || std::abs(k) > L || (!rel && k < 0))
            throw Violation(K("level-range"), "active node " + tos(p) + " has level " + tos(k));
        const int lsize = f->getLevelSize(k);
        if (k < 0) c.count("audit_primed_nodes"); else c.count("audit_unprimed_nodes");

        UnpackedGuard F(unpacked_node::newFromNode(f, p, FULL_ONLY));
        UnpackedGuard S(unpacked_node::newFromNode(f, p, SPARSE_ONLY));
        UnpackedGuard A(unpacked_node::newFromNode(f, p, FULL_OR_SPARSE));
        if (!F->isFull() || S->isFull())
            throw Violation(K("view-form"), nodeStr(f, p) + ": FULL_ONLY/SPARSE_ONLY view has wrong form");
        if (int(F->getSize()) > lsize)
            throw Violation(K("full-size"), nodeStr(f, p) + ": full view has " + tos(F->getSize()) + " entries, level size " + tos(lsize));
        if (F->getLevel() != k || S->getLevel() != k || A->getLevel() != k)
            throw Violation(K("view-level"), nodeStr(f, p) + ": views disagree about the level");

        // sparse view: sorted strictly, no transparent entry, indexes in range
        std::vector<NodeEntry>& ents = allEntries[size_t(p)];
        for (unsigned z = 0; z < S->getSize(); z++) {
            NodeEntry e; e.idx = S->index(z); e.down = S->down(z);
            e.ev = S->hasEdges() ? evBits(S->edgeval(z)) : 0;
            if (int(e.idx) >= lsize)
                throw Violation(K("index-range"), nodeStr(f, p) + ": index " + tos(e.idx) + " >= level size " + tos(lsize));
            if (z && e.idx <= ents.back().idx)
                throw Violation(K("sparse-unsorted"), nodeStr(f, p) + ": sparse view not strictly increasing");
            bool transp = S->hasEdges() ? f->isTransparentEdge(S->edgeval(z), e.down) : (e.down == tnode);
            if (transp)
                throw Violation(K("sparse-has-transparent"), nodeStr(f, p) + ": sparse view lists a transparent edge at index " + tos(e.idx));
            ents.push_back(e);
        }
        if (ents.empty())
            throw Violation(K("all-transparent"), "node " + tos(p) + " at level " + tos(k) + " has only transparent edges");
        // full view must denote the same child vector
        {
            size_t z = 0;
            for (unsigned i = 0; i < F->getSize(); i++) {
                bool transp = F->hasEdges() ? f->isTransparentEdge(F->edgeval(i), F->down(i)) : (F->down(i) == tnode);
                if (z < ents.size() && ents[z].idx == i) {
                    uint64_t ev = F->hasEdges() ? evBits(F->edgeval(i)) : 0;
                    if (transp || F->down(i) != ents[z].down || ev != ents[z].ev)
                        throw Violation(K("views-differ"), nodeStr(f, p) + ": full and sparse views differ at index " + tos(i));
                    z++;
                } else if (!transp) {
                    throw Violation(K("views-differ"), nodeStr(f, p) + ": full view has non-transparent edge at index " + tos(i) + " missing from sparse view");
                }
            }
            if (z != ents.size())
                throw Violation(K("views-differ"), nodeStr(f, p) + ": sparse view has entries beyond the full view");
        }
        // "either" view denotes the same child vector
        {
            std::vector<NodeEntry> ae;
            for (unsigned i = 0; i < A->getSize(); i++) {
                NodeEntry e; e.idx = A->isFull() ? i : A->index(i); e.down = A->down(i);
                e.ev = A->hasEdges() ? evBits(A->edgeval(i)) : 0;
                bool transp = A->hasEdges() ? f->isTransparentEdge(A->edgeval(i), e.down) : (e.down == tnode);
                if (A->isFull() && transp) continue;
                ae.push_back(e);
            }
            if (!(ae == ents)) throw Violation(K("views-differ"), nodeStr(f, p) + ": FULL_OR_SPARSE view differs from the sparse view");
            c.count(A->isFull() ? "audit_stored_full" : "audit_stored_sparse");
        }
        // hashes
        F->computeHash(); S->computeHash();
        unsigned hp = f->hashNode(p);
        if (F->hash() != S->hash() || F->hash() != hp)
            throw Violation(K("hash-mismatch"), nodeStr(f, p) + ": hash full=" + tos(F->hash()) + " sparse=" + tos(S->hash()) + " packed=" + tos(hp));
        // unique table lookups
        if (o.find) {
            int var = f->getVarByLevel(k);
            node_handle q1 = f->getUT()->find(*F, var);
            node_handle q2 = f->getUT()->find(*S, var);
            if (q1 != p || q2 != p)
                throw Violation(K("unique-find"), nodeStr(f, p) + ": unique table lookup returns " + tos(q1) + " (full key) / " + tos(q2) + " (sparse key)");
        }
        // duplicates (independent of the unique table)
        {
            auto key = std::make_pair(k, ents);
            auto it = content.find(key);
            if (it != content.end())
                throw Violation(K("duplicate"), nodeStr(f, p) + " duplicates node " + tos(it->second));
            content[key] = p;
        }
        // children
        for (const NodeEntry& e : ents) {
            if (e.down > 0) {
                if (e.down > last || !f->isActiveNode(e.down))
                    throw Violation(K("dead-child"), nodeStr(f, p) + ": child " + tos(e.down) + " is not an active node");
                int ck = f->getNodeLevel(e.down);
                if (!isLevelAbove(k, ck))
                    throw Violation(K("child-level"), nodeStr(f, p) + ": child " + tos(e.down) + " at level " + tos(ck) + " is not below");
                recount[size_t(e.down)]++;
            }
            if (quasi) {
                int want = rel ? (k > 0 ? -k : -k - 1) : k - 1;
                int ck = f->getNodeLevel(e.down);
                if (ck != want)
                    throw Violation(K("quasi-skip"), nodeStr(f, p) + ": non-transparent edge at index " + tos(e.idx) + " goes to level " + tos(ck) + ", expected " + tos(want));
            }
            if (mtreal && e.down < 0 && !realTerminalIsRounded(e.down, 1e-5))
                c.count("audit_unrounded_real_terminal");   // informational only (precision may be changed)
        }
        // redundant nodes
        if (fully || (ident && k > 0)) {
            if (int(ents.size()) == lsize) {
                bool red = true;
                for (size_t z = 1; z < ents.size(); z++) if (ents[z].down != ents[0].down || ents[z].ev != ents[0].ev) red = false;
                if (red) throw Violation(K("redundant"), nodeStr(f, p) + " is redundant");
            }
        }
        // edge-value normalisation
        if (evp) {
            bool haveZero = false;
            for (const NodeEntry& e : ents) { if (long(e.ev) < 0) throw Violation(K("evplus-negative"), nodeStr(f, p) + ": negative edge value after normalisation"); if (e.ev == 0) haveZero = true; }
            if (!haveZero) throw Violation(K("evplus-unnormalised"), nodeStr(f, p) + ": smallest edge value is not 0");
        }
        if (evt) {
            // zero has one representation in EV*: the transparent edge.  A listed (non-transparent) edge with value +-0 is a second one.
            for (const NodeEntry& e : ents) { float x; uint32_t bb = uint32_t(e.ev); memcpy(&x, &bb, 4); if (x == 0.0f) throw Violation(K("evtimes-zero-edge-not-transparent"), nodeStr(f, p) + ": edge " + tos(e.idx) + " has value 0 but is not the transparent edge"); }
            float first; uint32_t b = uint32_t(ents[0].ev); memcpy(&first, &b, 4);
            if (first != 1.0f) throw Violation(K("evtimes-unnormalised"), nodeStr(f, p) + ": first non-zero edge value is " + tos(first) + ", not 1");
        }
        if (ident && k < 0 && ents.size() == 1) singleton[p] = ents[0].idx;
        // isSingletonNode agrees with the content
        if (k < 0) {
            unsigned si = 0; node_handle sd = 0;
            bool isS = f->isSingletonNode(p, si, sd);
            if (isS != (ents.size() == 1) || (isS && (si != ents[0].idx || sd != ents[0].down)))
                throw Violation(K("singleton-query"), nodeStr(f, p) + ": isSingletonNode disagrees with node content");
        }
        c.count("audit_nodes");
    }

    // identity-reduced: no edge i -> i-singleton primed node; singleton primed nodes are only
    // reached from the unprimed level directly above
    if (ident) {
        for (node_handle p = 1; p <= last; p++) {
            if (!f->isActiveNode(p)) continue;
            const int k = f->getNodeLevel(p);
            for (const NodeEntry& e : allEntries[size_t(p)]) {
                auto it = singleton.find(e.down);
                if (it == singleton.end()) continue;
                c.count("audit_singleton_edge_checks");
                int ck = f->getNodeLevel(e.down);
                // (with a primed bound larger than the unprimed bound a j-singleton with j >= the unprimed size has no
                //  matching unprimed index: a redundant unprimed node above it is legitimately skipped)
                if (k != -ck && int(it->second) >= f->getLevelSize(-ck)) continue;
                if (k != -ck)
                    throw Violation(K("singleton-skip"), nodeStr(f, p) + ": edge skips level " + tos(-ck) + " into singleton " + nodeStr(f, e.down));
                if (e.idx == it->second)
                    throw Violation(K("illegal-singleton-edge"), nodeStr(f, p) + ": edge " + tos(e.idx) + " points to " + tos(e.idx) + "-singleton " + nodeStr(f, e.down));
            }
        }
    }

    // index-set cardinalities
    if (f->isIndexSet()) {
        std::map<node_handle, long> card;
        std::function<long(node_handle)> rec = [&](node_handle p) -> long {
            if (p <= 0) return p != 0 ? 1 : 0;
            auto it = card.find(p); if (it != card.end()) return it->second;
            long s = 0; for (const NodeEntry& e : allEntries[size_t(p)]) s += rec(e.down);
            card[p] = s; return s;
        };
        for (node_handle p = 1; p <= last; p++) {
            if (!f->isActiveNode(p)) continue;
            long want = rec(p);
            long got = f->getIndexSetCardinality(p);
            if (want != got) throw Violation(K("index-cardinality"), nodeStr(f, p) + ": stored cardinality " + tos(got) + ", members below " + tos(want));
            c.count("audit_index_cardinalities");
        }
    }

    // counts
    if (nactive != f->getCurrentNumNodes())
        throw Violation(K("node-count"), "active handles " + tos(nactive) + " != getCurrentNumNodes() " + tos(f->getCurrentNumNodes()));
    {
        long ut = 0;
        for (int v = 1; v <= L; v++) { ut += f->getUT()->getNumEntries(v); if (rel) ut += f->getUT()->getNumEntries(-v); }
        if (ut != nactive)
            throw Violation(K("unique-count"), "unique table holds " + tos(ut) + " entries, active nodes " + tos(nactive));
        if (long(f->getUT()->getNumEntries()) != nactive)
            throw Violation(K("unique-count-total"), "unique_table::getNumEntries() = " + tos(f->getUT()->getNumEntries()) + ", active nodes " + tos(nactive));
    }

    // M2: reference counts
    if (o.refcounts && f->getPolicies().useReferenceCounts) {
        unsigned nroots = f->verif_countRoots(recount);
        if (recount.size() > size_t(last) + 1)
            throw Violation(P + ":refcount:root-out-of-range:" + kind, "a registered edge refers to a handle beyond the last used handle");
        std::vector<unsigned> build(size_t(last) + 1, 0);
        unpacked_node::AddToIncomingCounts(f, build);
        for (node_handle p = 1; p <= last; p++) {
            unsigned long want = recount[size_t(p)] + build[size_t(p)];
            if (!f->isActiveNode(p)) {
                if (want) throw Violation(P + ":refcount:reference-to-dead:" + kind, tos(want) + " references (edges/build list) to inactive handle " + tos(p));
                continue;
            }
            unsigned long got = f->getNodeInCount(p);
            if (got != want)
                throw Violation(P + std::string(":refcount:") + (got < want ? "too-low" : "too-high") + ":" + kind,
                                nodeStr(f, p) + ": stored incoming count " + tos(got) + ", actual references " + tos(want) +
                                " (roots registered: " + tos(nroots) + ")");
            c.count("refcounts_checked");
        }
    }
    // M3: cache counts
    if (o.cachecounts && f->getPolicies().useReferenceCounts) {
        std::vector<unsigned long> cc(size_t(last) + 1, 0);
        compute_table::countAllNodeEntries(f, cc);
        if (cc.size() > size_t(last) + 1) {
            for (size_t p = size_t(last) + 1; p < cc.size(); p++) if (cc[p])
                throw Violation(P + ":cachecount:entry-beyond-last:" + kind, "compute table mentions handle " + tos(p) + " beyond last used handle " + tos(last));
        }
        for (node_handle p = 1; p <= last; p++) {
            unsigned long got = f->verif_cacheCount(p);
            if (got != cc[size_t(p)])
                throw Violation(P + std::string(":cachecount:") + (got < cc[size_t(p)] ? "too-low" : "too-high") + ":" + kind,
                                "handle " + tos(p) + (f->isActiveNode(p) ? " (active)" : " (deleted)") + ": stored cache count " + tos(got) +
                                ", entries mentioning it " + tos(cc[size_t(p)]));
            if (cc[size_t(p)]) c.count("cachecounts_nonzero_checked");
            if (cc[size_t(p)] && !f->isActiveNode(p)) c.count("cache_entries_on_deleted_handles", long(cc[size_t(p)]));
        }
        c.count("cachecount_audits");
    }
    c.count("audits");
}

// ------------------------------------------------------------------------------------
// M5: handle life-cycle monitor (hook installed in node_headers.cc under MEDDLY_VERIF)
// ------------------------------------------------------------------------------------
struct HandleMonitor {
    long issued = 0, recycled = 0, reissued = 0;
    std::string firstProblem, firstKey;
    std::map<const void*, std::set<long>> freed;   // per forest: handles recycled at least once
    std::map<const void*, std::set<long>> live;    // handles currently issued
    void reset() { issued = recycled = reissued = 0; firstProblem.clear(); firstKey.clear(); freed.clear(); live.clear(); }
    void problem(const std::string& key, const std::string& d) { if (firstProblem.empty()) { firstKey = key; firstProblem = d; } }
};
static HandleMonitor g_hm;
static void handleHook(const void* forest, int ev, long h, unsigned long in, unsigned long cc) {
    switch (ev) {
        case verif::HANDLE_ISSUED:
            g_hm.issued++;
            if (g_hm.freed[forest].count(h)) g_hm.reissued++;
            if (in || cc) g_hm.problem("handle-issued-while-referenced", "handle " + tos(h) + " issued with incoming count " + tos(in) + " cache count " + tos(cc));
            if (!g_hm.live[forest].insert(h).second) g_hm.problem("handle-issued-twice", "handle " + tos(h) + " issued while still live");
            break;
        case verif::HANDLE_RECYCLED:
            g_hm.recycled++;
            if (in || cc) g_hm.problem("handle-recycled-while-referenced", "handle " + tos(h) + " recycled with incoming count " + tos(in) + " cache count " + tos(cc));
            if (!g_hm.live[forest].erase(h)) g_hm.problem("handle-recycled-twice", "handle " + tos(h) + " recycled but not live");
            g_hm.freed[forest].insert(h);
            break;
        case verif::INCOUNT_UNDERFLOW:
            g_hm.problem("incoming-count-underflow", "unlinkNode(" + tos(h) + ") with incoming count 0");
            break;
        case verif::CACHECOUNT_UNDERFLOW:
            g_hm.problem("cache-count-underflow", "uncacheNode(" + tos(h) + ") with cache count 0");
            break;
    }
}
static inline void installHandleMonitor() { g_hm.reset(); verif::on_handle = handleHook; }
static inline void removeHandleMonitor() { verif::on_handle = nullptr; }
static inline void forgetForestInMonitor(const void* f) { g_hm.freed.erase(f); g_hm.live.erase(f); }
static inline void checkHandleMonitor(Ctx& c, const std::string& P, const std::string& kind) {
    c.counters["handles_issued"] = g_hm.issued;
    c.counters["handles_recycled"] = g_hm.recycled;
    c.counters["handles_reissued"] = g_hm.reissued;
    if (!g_hm.firstProblem.empty()) {
        std::string k = g_hm.firstKey, d = g_hm.firstProblem;
        g_hm.firstProblem.clear(); g_hm.firstKey.clear();
        throw Violation(P + ":handles:" + k + ":" + kind, d);
    }
}

} // namespace V
#endif

// C08: reachability operations return exactly the least fixed point; all algorithms return the
// identical edge; distance variants return shortest-path lengths.
#include "audit.h"
#include "opsmodel.h"
#include "relmodel.h"
using namespace V;

// evs: in = the previous call's events (empty: none), out = this call's events.  Half of the follow-up calls use a relation that
// differs from the previous one by a single event confined to the variables at or below a random level (added or removed): the
// two saturations then share every event below that level -- and whatever the operation cached for them -- but not above it.
static Table randomRelation(Rng& r, const World& w, const FSpec& frel, std::string& desc, std::vector<Event>& evs, Ctx& c) {
    const int n = w.shape.n();
    if (!evs.empty() && r.chance(1, 2)) {
        desc = "variant-of-previous:";
        if (evs.size() >= 2 && r.chance(1, 3)) { size_t k = r.below(evs.size()); desc += " minus " + eventStr(evs[k], w.shape); evs.erase(evs.begin() + long(k)); }
        else { Event e = randomEvent(r, w.shape, int(r.below(3))); int top = r.range(1, n); for (int k = top + 1; k <= n; k++) e.v[size_t(k)] = VarRule(); desc += " plus(vars<=" + tos(top) + ") " + eventStr(e, w.shape); evs.push_back(e); }
        c.count("relations_differing_by_one_event_from_previous_call");
        std::vector<Table> ts; for (auto& e : evs) ts.push_back(eventTable(w, e));
        return unionTables(ts, size_t(w.N * w.N));
    }
    evs.clear();
    if (r.chance(1, 6)) { std::vector<Val> a = {Val::b(true)}; desc = "random-table"; Table t = randomTable(r, w, frel, a);
        // keep random tables sparse-ish so closures are not always everything
        if (r.chance(1, 2)) for (auto& v : t) if (v.truthy() && r.chance(2, 3)) v = Val::b(false);
        return t; }
    int ne = r.range(1, 5); std::vector<Table> ts;
    desc = "events";
    for (int i = 0; i < ne; i++) { Event e = randomEvent(r, w.shape, int(r.below(3))); desc += " " + eventStr(e, w.shape); ts.push_back(eventTable(w, e)); evs.push_back(e); }
    return unionTables(ts, size_t(w.N * w.N));
}

// shortest distances with offsets: d[s] = min over x with d0[x] >= 0 of d0[x] + dist(x -> s); -1 if none
static std::vector<long> distFrom(long N, const std::vector<long>& d0, const Table& rel, bool fwd) {
    std::vector<long> d(d0);
    for (auto& x : d) if (x < 0) x = -1;
    bool ch = true;
    while (ch) {
        ch = false;
        for (long x = 0; x < N; x++) { if (d[size_t(x)] < 0) continue;
            for (long y = 0; y < N; y++) {
                bool edge = fwd ? rel[size_t(x * N + y)].truthy() : rel[size_t(y * N + x)].truthy();
                if (!edge) continue;
                long nd = d[size_t(x)] + 1;
                if (d[size_t(y)] < 0 || nd < d[size_t(y)]) { d[size_t(y)] = nd; ch = true; }
            } }
    }
    return d;
}

static void run(Ctx& c) {
    Rng& r = c.rng;
    Shape sh = randomShape(r, 1, 5, 4, 64);
    MEDDLY::initialize();
    World w(sh);
    const long N = w.N;
    reduction_rule RR[] = {reduction_rule::FULLY_REDUCED, reduction_rule::QUASI_REDUCED, reduction_rule::IDENTITY_REDUCED};
    int mode = int(r.below(4)); if (mode == 3) mode = 0;   // 0 bool (x2), 1 MT-int distance, 2 EV+ distance
    FSpec frel = mkSpec(true, range_type::BOOLEAN, edge_labeling::MULTI_TERMINAL, RR[r.below(3)]);
    if (r.chance(1, 2)) frel.rr = reduction_rule::IDENTITY_REDUCED;   // the default for relations
    randomPolicy(r, frel);
    FSpec fin, fout;
    if (mode == 0) { fin = mkSpec(false, range_type::BOOLEAN, edge_labeling::MULTI_TERMINAL, RR[r.below(2)]); fout = fin; fout.rr = RR[r.below(2)]; }
    else if (mode == 1) { fin = mkSpec(false, range_type::INTEGER, edge_labeling::MULTI_TERMINAL, RR[r.below(2)]); fout = fin; fout.rr = reduction_rule::FULLY_REDUCED; }
    else { fin = mkSpec(false, range_type::INTEGER, edge_labeling::EVPLUS, RR[r.below(2)]); fout = fin; fout.rr = RR[r.below(2)]; }
    randomPolicy(r, fin); randomPolicy(r, fout);
    forest* FR = makeForest(w.dom, frel); forest* FI = makeForest(w.dom, fin);
    forest* FO = (fin.rr == fout.rr && r.chance(1, 2)) ? FI : makeForest(w.dom, fout);
    if (FO == FI) fout = fin;
    uint64_t sig = 0; bool nontriv = false, threw = false; std::string sample;
    int reps = r.range(1, 4); if (getenv("C08_ONE")) reps = 1;
    const std::string cfg = std::string(mode == 0 ? "bool" : mode == 1 ? "MTdist" : "EV+dist") + ":rel=" + shortNameOf(frel.rr) + ":" + shortNameOf(fin.rr) + "->" + shortNameOf(fout.rr);
    std::vector<Event> prevEvents; std::vector<long> prevD0;
    for (int rep = 0; rep < reps; rep++) {
        std::string rdesc; Table tr = randomRelation(r, w, frel, rdesc, prevEvents, c);
        dd_edge er(FR); buildChecked(w, FR, frel, tr, er, "C08");
        // initial states / distances
        std::vector<long> d0(size_t(N), -1);
        int ninit = r.chance(1, 10) ? 0 : r.range(1, 3);
        if (r.chance(1, 8)) ninit = int(N / 2);
        for (int i = 0; i < ninit; i++) d0[size_t(r.below(uint64_t(N)))] = (mode != 0 && r.chance(1, 4)) ? r.range(1, 4) : 0;
        if (!prevD0.empty() && r.chance(1, 2)) { d0 = prevD0; c.count("calls_reusing_previous_initial_states"); }
        prevD0 = d0;
        Table ts(static_cast<size_t>(N));
        for (long i = 0; i < N; i++) {
            if (mode == 0) ts[size_t(i)] = Val::b(d0[size_t(i)] >= 0);
            else if (mode == 1) ts[size_t(i)] = Val::in(d0[size_t(i)] >= 0 ? d0[size_t(i)] : -1);
            else ts[size_t(i)] = d0[size_t(i)] >= 0 ? Val::in(d0[size_t(i)]) : Val::inf();
        }
        dd_edge es(FI); buildChecked(w, FI, fin, ts, es, "C08");
        for (int fwd = 1; fwd >= 0; fwd--) {
            std::vector<long> dist = distFrom(N, d0, tr, fwd != 0);
            Table want(static_cast<size_t>(N));
            long nreach = 0;
            for (long i = 0; i < N; i++) {
                long d = dist[size_t(i)]; if (d >= 0) nreach++;
                want[size_t(i)] = mode == 0 ? Val::b(d >= 0) : (mode == 1 ? Val::in(d) : (d >= 0 ? Val::in(d) : Val::inf()));
            }
            struct Alg { const char* name; binary_factory* fac; };
            std::vector<Alg> algs;
            if (mode == 0) algs.push_back({"REACHABLE_TRAD_FS", &REACHABLE_TRAD_FS(fwd != 0)});
            algs.push_back({"REACHABLE_TRAD_NOFS", &REACHABLE_TRAD_NOFS(fwd != 0)});
            algs.push_back({"REACHABLE_SATUR", &REACHABLE_SATUR(fwd != 0, 1)});
            std::vector<dd_edge> results; std::vector<std::string> rnames;
            for (const Alg& A : algs) {
                dd_edge res(FO);
                const bool satur = std::string(A.name) == "REACHABLE_SATUR";
                // saturation: key by direction, value mode and relation rule only (the set forests' rules do not matter to the known classes)
                std::string kb = satur ? std::string("C08:REACHABLE_SATUR:") + (mode == 0 ? "bool" : mode == 1 ? "MTdist" : "EV+dist") + ":rel=" + shortNameOf(frel.rr) + (fwd ? ":fwd" : ":bwd")
                                       : std::string("C08:") + A.name + (fwd ? ":fwd:" : ":bwd:") + cfg;
                std::string ctx = kb + " shape " + sh.str() + " relation(" + rdesc + ")=" + tableStr(tr, 36) + " init=" + tableStr(ts, 40) + " forests " + fin.str() + " x " + frel.str() + " -> " + fout.str();
                if (satur) {
                    phase(kb.substr(4));
                    binary_operation* bop = nullptr;
                    try { bop = A.fac->build(FI, FR, FO); } catch (MEDDLY::error& e) { if (e.getCode() == error::TYPE_MISMATCH || e.getCode() == error::NOT_IMPLEMENTED) { c.count("combination_not_offered"); continue; } throw; }
                    if (!bop) { c.count("combination_not_offered"); continue; }
                    try { bop->compute(es, er, res); }
                    catch (MEDDLY::error& e) { c.viol(kb + ":unexpected-error:" + e.getName(), ctx + ": raised " + e.getName()); threw = true; continue; }
                } else if (!applyBin(c, *A.fac, es, er, res)) continue;
                try { AuditOpts a1; a1.refcounts = !threw; a1.cachecounts = !threw; auditForest(FR, frel.kindStr(), c, "C08", a1); }
                catch (Violation& v) { throw Violation(kb + ":relation-forest-damaged:" + v.key.substr(4), ctx + ": after the call, " + v.detail); }
                Table got = evalAll(w, res);
                c.count("points_evaluated", long(got.size()));
                long missing = 0, extra = 0, wrongd = 0; long first = -1;
                for (long i = 0; i < N; i++) {
                    const Val& g = got[size_t(i)]; const Val& wv = want[size_t(i)];
                    bool greach = mode == 0 ? g.truthy() : (mode == 1 ? (g.k == Val::I && g.i >= 0) : !g.isInf());
                    bool wreach = dist[size_t(i)] >= 0;
                    bool bad = false;
                    if (wreach && !greach) { missing++; bad = true; }
                    else if (!wreach && greach) { extra++; bad = true; }
                    else if (wreach && mode != 0 && !valEq(g, wv)) { wrongd++; bad = true; }
                    else if (!wreach && mode == 1 && !(g.k == Val::I && g.i < 0)) { wrongd++; bad = true; }
                    if (bad && first < 0) first = i;
                }
                if (first >= 0 && satur) {
                    std::string sym = missing ? "missing-states" : extra ? "extra-states" : "wrong-distance";
                    c.viol(kb + ":" + sym, ctx + ": " + tos(missing) + " missing, " + tos(extra) + " extra, " + tos(wrongd) + " wrong distances; first at " + pointStr(w, false, size_t(first)) +
                           " library=" + got[size_t(first)].str() + " model=" + want[size_t(first)].str());
                    continue;
                }
                if (first >= 0) {
                    std::string sym = missing ? "missing-states" : extra ? "extra-states" : "wrong-distance";
                    throw Violation(kb + ":" + sym, ctx + ": " + tos(missing) + " missing, " + tos(extra) + " extra, " + tos(wrongd) + " wrong distances; first at " + pointStr(w, false, size_t(first)) +
                                    " library=" + got[size_t(first)].str() + " model=" + want[size_t(first)].str());
                }
                c.count(std::string("runs_") + A.name);
                results.push_back(res); rnames.push_back(A.name);
                expectTable(w, es, ts, EXACT, kb + ":operand-changed", ctx);
                expectTable(w, er, tr, EXACT, kb + ":operand-changed", ctx);
                if (nreach > ninit && nreach < N) nontriv = true;
            }
            for (size_t i = 1; i < results.size(); i++)
                if (results[i] != results[0]) throw Violation(std::string("C08:algorithms-disagree:") + rnames[0] + "-vs-" + rnames[i] + ":" + cfg,
                                                               "equal functions but different edges for " + rnames[0] + " and " + rnames[i] + " shape " + sh.str());
            if (results.size() > 1) c.count("algorithm_agreements", long(results.size()) - 1);
        }
        sig = sig * 1000003ULL ^ tableHash(tr) ^ (tableHash(ts) << 1);
        if (sample.empty()) sample = "{\"mode\":" + jstr(cfg) + ",\"shape\":" + jstr(sh.str()) + ",\"relation\":" + jstr(rdesc) + ",\"init\":" + jstr(tableStr(ts, 24)) + "}";
        if (r.chance(1, 4)) { FO->removeAllComputeTableEntries(); c.count("cache_clears"); }
    }
    c.count("repeated_calls_same_forests", reps - 1);
    AuditOpts ao; ao.refcounts = !threw; ao.cachecounts = !threw;   // C06/C07 exclude histories in which a call raised an error
    auditForest(FR, frel.kindStr(), c, "C08", ao); auditForest(FI, fin.kindStr(), c, "C08", ao); if (FO != FI) auditForest(FO, fout.kindStr(), c, "C08", ao);
    c.nontrivial = nontriv;
    c.sig = tos(sig ^ hashstr(sh.str().c_str()) ^ hashstr(cfg.c_str()));
    c.sample = sample.empty() ? "{}" : sample;
    MEDDLY::cleanup();
}

int main(int argc, char** argv) { return workerMain(argc, argv, "C08", run); }

// Scalar reference semantics of the library's element-wise operations (DESIGN Appendix A).
// Sources: ops_builtin.h comments, error.h, and the maintainers' reference functions in
// tests/ops_*.cc (Plus, Minus, Divide, Modulo, DistMin, EQ..LT).  Where neither documentation
// nor tests define a case (0*inf, x/inf, inf%x, real division by zero) the result is
// UNSPEC and the point is skipped (and counted), never asserted.
#ifndef VOPSMODEL_H
#define VOPSMODEL_H
#include "vcommon.h"

namespace V {

enum BinOp {
    B_UNION, B_INTERSECTION, B_DIFFERENCE,
    B_PLUS, B_MINUS, B_MULTIPLY, B_DIVIDE, B_MODULO, B_MAXIMUM, B_MINIMUM, B_DISTMIN,
    B_EQ, B_NE, B_LT, B_LE, B_GT, B_GE,
    B_NUM
};
static inline const char* binName(int o) {
    static const char* n[] = {"UNION", "INTERSECTION", "DIFFERENCE", "PLUS", "MINUS", "MULTIPLY", "DIVIDE", "MODULO",
                              "MAXIMUM", "MINIMUM", "DIST_MIN", "EQUAL", "NOT_EQUAL", "LESS_THAN", "LESS_THAN_EQUAL",
                              "GREATER_THAN", "GREATER_THAN_EQUAL"};
    return n[o];
}
static inline binary_factory& binFactory(int o) {
    switch (o) {
        case B_UNION: return UNION();
        case B_INTERSECTION: return INTERSECTION();
        case B_DIFFERENCE: return DIFFERENCE();
        case B_PLUS: return PLUS();
        case B_MINUS: return MINUS();
        case B_MULTIPLY: return MULTIPLY();
        case B_DIVIDE: return DIVIDE();
        case B_MODULO: return MODULO();
        case B_MAXIMUM: return MAXIMUM();
        case B_MINIMUM: return MINIMUM();
        case B_DISTMIN: return DIST_MIN();
        case B_EQ: return EQUAL();
        case B_NE: return NOT_EQUAL();
        case B_LT: return LESS_THAN();
        case B_LE: return LESS_THAN_EQUAL();
        case B_GT: return GREATER_THAN();
        default: return GREATER_THAN_EQUAL();
    }
}
static inline bool isCompare(int o) { return o >= B_EQ && o <= B_GE; }
static inline bool isSetOp(int o) { return o <= B_DIFFERENCE; }

struct SR {
    enum T { VAL, ERR, UNSPEC } t = VAL;
    Val v; error::code code = error::MISCELLANEOUS;
    static SR val(const Val& x) { SR s; s.v = x; return s; }
    static SR err(error::code c) { SR s; s.t = ERR; s.code = c; return s; }
    static SR unspec() { SR s; s.t = UNSPEC; return s; }
};

// a and b have the same kind (B, I, R) or are INF (integer range).  `real`: operands are real.
static inline SR scalarBin(int op, const Val& a, const Val& b, bool real) {
    const bool ai = a.isInf(), bi = b.isInf();
    switch (op) {
        case B_UNION: return SR::val(Val::b(a.truthy() || b.truthy()));
        case B_INTERSECTION: return SR::val(Val::b(a.truthy() && b.truthy()));
        case B_DIFFERENCE: return SR::val(Val::b(a.truthy() && !b.truthy()));
        default: break;
    }
    if (isCompare(op)) {
        // +infinity is the largest value; inf == inf
        int cmp;
        if (ai && bi) cmp = 0; else if (ai) cmp = 1; else if (bi) cmp = -1;
        else if (real) { float x = float(a.r), y = float(b.r); cmp = x < y ? -1 : (x > y ? 1 : 0); }
        else cmp = a.i < b.i ? -1 : (a.i > b.i ? 1 : 0);
        bool r = false;
        switch (op) {
            case B_EQ: r = cmp == 0; break; case B_NE: r = cmp != 0; break;
            case B_LT: r = cmp < 0; break; case B_LE: r = cmp <= 0; break;
            case B_GT: r = cmp > 0; break; default: r = cmp >= 0; break;
        }
        return SR::val(Val::b(r));
    }
    if (real) {
        float x = float(a.r), y = float(b.r);
        switch (op) {
            case B_PLUS: return SR::val(Val::re(double(x + y)));
            case B_MINUS: return SR::val(Val::re(double(x - y)));
            case B_MULTIPLY: return SR::val(Val::re(double(x * y)));
            case B_DIVIDE: if (y == 0) return SR::unspec(); return SR::val(Val::re(double(x / y)));
            case B_MAXIMUM: return SR::val(Val::re(double(std::max(x, y))));
            case B_MINIMUM: return SR::val(Val::re(double(std::min(x, y))));
            case B_DISTMIN:
                if (x < 0) return SR::val(Val::re(double(y < 0 ? std::min(x, y) : y)));
                return SR::val(Val::re(double(y < 0 ? x : std::min(x, y))));
            default: return SR::unspec();
        }
    }
    // integers with +infinity
    switch (op) {
        case B_PLUS: if (ai || bi) return SR::val(Val::inf()); return SR::val(Val::in(a.i + b.i));
        case B_MINUS:
            if (bi) return SR::err(error::SUBTRACT_INFINITY);
            if (ai) return SR::val(Val::inf());
            return SR::val(Val::in(a.i - b.i));
        case B_MULTIPLY:
            if (ai || bi) {
                if ((ai && !bi && b.i == 0) || (bi && !ai && a.i == 0)) return SR::unspec();
                return SR::val(Val::inf());
            }
            return SR::val(Val::in(a.i * b.i));
        case B_DIVIDE:
            if (ai && bi) return SR::err(error::INFINITY_DIV_INFINITY);
            if (bi) return SR::unspec();
            if (b.i == 0) return SR::err(error::DIVIDE_BY_ZERO);
            if (ai) return SR::val(Val::inf());
            return SR::val(Val::in(a.i / b.i));
        case B_MODULO:
            if (ai && bi) return SR::err(error::INFINITY_DIV_INFINITY);
            if (ai || bi) return SR::unspec();
            if (b.i == 0) return SR::err(error::DIVIDE_BY_ZERO);
            return SR::val(Val::in(a.i % b.i));
        case B_MAXIMUM: if (ai || bi) return SR::val(Val::inf()); return SR::val(Val::in(std::max(a.i, b.i)));
        case B_MINIMUM: if (ai) return SR::val(b); if (bi) return SR::val(a); return SR::val(Val::in(std::min(a.i, b.i)));
        case B_DISTMIN:
            if (ai || bi) return SR::unspec();
            if (a.i < 0) return SR::val(Val::in(b.i < 0 ? std::min(a.i, b.i) : b.i));
            return SR::val(Val::in(b.i < 0 ? a.i : std::min(a.i, b.i)));
        default: return SR::unspec();
    }
}

// Apply a binary operation if the library offers it for these forests.  "Not offered" (factory
// returns null, or the operation's constructor raises TYPE_MISMATCH / NOT_IMPLEMENTED) is counted,
// never treated as a violation.  Errors raised by compute() propagate.
static inline bool applyBin(Ctx& c, binary_factory& fac, const dd_edge& a, const dd_edge& b, dd_edge& res) {
    binary_operation* bop = nullptr;
    phase(std::string(fac.getName()) + ":" + shortNameOf(a.getForest()->getReductionRule()) + "," + shortNameOf(b.getForest()->getReductionRule()) +
          "->" + shortNameOf(res.getForest()->getReductionRule()) + (res.getForest()->isForRelations() ? ":rel" : ":set"));
    try { bop = fac.build(a.getForest(), b.getForest(), res.getForest()); }
    catch (MEDDLY::error& e) {
        if (e.getCode() == error::TYPE_MISMATCH || e.getCode() == error::NOT_IMPLEMENTED) { c.count("combination_not_offered"); return false; }
        throw;
    }
    if (!bop) { c.count("combination_not_offered"); return false; }
    bop->compute(a, b, res);
    return true;
}
static inline bool applyUn(Ctx& c, unary_factory& fac, const dd_edge& a, dd_edge& res) {
    unary_operation* uop = nullptr;
    phase(std::string(fac.getName()) + ":" + shortNameOf(a.getForest()->getReductionRule()) +
          "->" + shortNameOf(res.getForest()->getReductionRule()) + (res.getForest()->isForRelations() ? ":rel" : ":set"));
    try { uop = fac.build(a.getForest(), res.getForest()); }
    catch (MEDDLY::error& e) {
        if (e.getCode() == error::TYPE_MISMATCH || e.getCode() == error::NOT_IMPLEMENTED) { c.count("combination_not_offered"); return false; }
        throw;
    }
    if (!uop) { c.count("combination_not_offered"); return false; }
    uop->compute(a, res);
    return true;
}

// Result of applying op pointwise.  `skip[i]` marks unspecified points; returns the first error
// the tables contain (any point), if any.
struct BinModel {
    Table out; std::vector<bool> skip; bool hasErr = false; std::set<int> errCodes; long nskip = 0;
};
static inline BinModel modelBin(int op, const Table& a, const Table& b, bool real) {
    BinModel m; m.out.resize(a.size()); m.skip.assign(a.size(), false);
    for (size_t i = 0; i < a.size(); i++) {
        SR s = scalarBin(op, a[i], b[i], real);
        if (s.t == SR::ERR) { m.hasErr = true; m.errCodes.insert(int(s.code)); m.skip[i] = true; }
        else if (s.t == SR::UNSPEC) { m.skip[i] = true; m.nskip++; }
        else m.out[i] = s.v;
    }
    return m;
}

// Convert a model value into the value kind a result forest reports.
static inline Val asKind(const Val& v, const FSpec& f) {
    if (v.isInf()) return v;
    if (f.isBool()) return Val::b(v.truthy());
    if (f.isInt()) return v.k == Val::R ? Val::in(long(v.r)) : Val::in(v.i);
    return v.k == Val::R ? v : Val::re(double(v.i));
}

static inline long firstDiffSkip(const Table& got, const Table& want, const std::vector<bool>& skip, const Tol& tol) {
    for (size_t i = 0; i < got.size(); i++) { if (skip[i]) continue; if (!valEq(got[i], want[i], tol)) return long(i); }
    return -1;
}

} // namespace V
#endif

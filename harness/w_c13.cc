// C13: variable reordering preserves every function and every held edge, keeps the forest
// canonical, and leaves other forests over the same domain untouched.
#include "audit.h"
#include "opsmodel.h"
using namespace V;

static const char* heurName(int h) {
    static const char* n[] = {"LOWEST_INVERSION", "HIGHEST_INVERSION", "SINK_DOWN", "BRING_UP", "LOWEST_COST", "LOWEST_MEMORY", "RANDOM", "LARC"};
    return n[h];
}
static forest* makeForestR(domain* d, const FSpec& f, int heur, bool levelSwap) {
    policies p(f.rel); p.useDefaults(f.rel);
    p.reduction = f.rr; p.storage_flags = f.st; p.nodemm = mmStyle(f.mm); p.deletion = f.del;
    static const policies::reordering_type H[] = {policies::reordering_type::LOWEST_INVERSION, policies::reordering_type::HIGHEST_INVERSION,
        policies::reordering_type::SINK_DOWN, policies::reordering_type::BRING_UP, policies::reordering_type::LOWEST_COST,
        policies::reordering_type::LOWEST_MEMORY, policies::reordering_type::RANDOM, policies::reordering_type::LARC};
    p.reorder = H[heur];
    p.swap = levelSwap ? policies::variable_swap_type::LEVEL : policies::variable_swap_type::VAR;
    return forest::create(d, f.rel, f.rt, f.el, p);
}

static void run(Ctx& c) {
    Rng& r = c.rng;
    bool rel = r.chance(2, 5);
    Shape sh = rel ? randomShape(r, 2, 4, 3, 27) : randomShape(r, 2, 5, 4, 600);
    if (getenv("C13_UNIFORM") || (rel && r.chance(1, 2))) for (int v = 2; v <= sh.n(); v++) sh.sizes[size_t(v)] = sh.sizes[1];
    const int n = sh.n();
    // kinds: MT sets and relations, EV+ sets
    std::vector<FSpec> kinds;
    for (const FSpec& k : allKinds(rel)) { if (k.isMT() || (!rel && k.isEVP())) kinds.push_back(k); }
    FSpec fs = kinds[r.below(kinds.size())]; randomPolicy(r, fs);
    FSpec fsib = kinds[r.below(kinds.size())]; randomPolicy(r, fsib);
    int heur = int(r.below(8)); bool levelSwap = rel && fs.rr != reduction_rule::IDENTITY_REDUCED && r.chance(1, 2);   // policies.h: LEVEL swaps do not work for identity-reduced relations
    const std::string cfg = std::string(heurName(heur)) + (levelSwap ? ":LEVEL" : ":VAR") + ":" + fs.kindStr();
    Tol tol = tolFor(fs);
    MEDDLY::initialize();
    World w(sh);
    forest* F = makeForestR(w.dom, fs, heur, levelSwap);
    forest* SIB = makeForestR(w.dom, fsib, int(r.below(8)), false);
    // held edges sharing nodes, warm compute tables
    int ne = r.range(1, 6);
    std::vector<Val> alpha = alphabet(r, fs, true, true);
    std::vector<Table> T; std::vector<dd_edge> E;
    for (int i = 0; i < ne; i++) {
        Table t = (i > 0 && r.chance(1, 2)) ? T[r.below(T.size())] : randomTable(r, w, fs, alpha);
        if (i > 0) { size_t k = 1 + r.below(3); for (size_t q = 0; q < k; q++) { size_t p = r.below(t.size()); t[p] = r.chance(1, 2) ? alpha[r.below(alpha.size())] : fs.deflt(); } }   // variants share sub-graphs
        dd_edge e(F); buildChecked(w, F, fs, t, e, "C13"); T.push_back(t); E.push_back(e);
    }
    if (ne >= 2 && r.chance(2, 3)) {   // warm caches with operations on the held edges
        for (int k = 0; k < 3; k++) { size_t a = r.below(E.size()), b = r.below(E.size()); int op = fs.isBool() ? B_UNION : (fs.isEVP() ? B_MINIMUM : B_MAXIMUM);
            dd_edge res(F); apply(binFactory(op), E[a], E[b], res); BinModel m = modelBin(op, T[a], T[b], fs.isReal());
            if (r.chance(1, 2)) { T.push_back(m.out); E.push_back(res); } }
        c.count("cases_with_warm_caches");
    }
    std::vector<Val> alphaS = alphabet(r, fsib, true, true);
    std::vector<Table> TS; std::vector<dd_edge> ES; std::vector<long> NS;
    for (int i = 0; i < 2; i++) { Table t = randomTable(r, w, fsib, alphaS); dd_edge e(SIB); buildChecked(w, SIB, fsib, t, e, "C13 sibling"); TS.push_back(t); ES.push_back(e); NS.push_back(long(e.getNodeCount())); }
    std::vector<dd_edge> ESc(ES);
    // Half of the cases (where the sibling's kind can be reordered too and the known relation/VAR-swap class is not touched): both
    // forests are first brought to the SAME non-default order, so that they share whatever the domain keeps per order; afterwards
    // only F is reordered and the sibling must keep that order and its functions.
    std::vector<int> sibOrder(size_t(n + 1), 0); for (int i = 1; i <= n; i++) sibOrder[size_t(i)] = i;
    bool uniformAll = true; for (int v = 2; v <= n; v++) if (sh.sizes[size_t(v)] != sh.sizes[1]) uniformAll = false;
    if (r.chance(1, 2) && (!rel || uniformAll)) {
        std::vector<int> perm; for (int i = 1; i <= n; i++) perm.push_back(i); r.shuffle(perm);
        std::vector<int> l2v(size_t(n + 1), 0); for (int i = 1; i <= n; i++) l2v[size_t(i)] = perm[size_t(i - 1)];
        phase("shared-order:" + cfg);
        try {
            F->reorderVariables(l2v.data()); SIB->reorderVariables(l2v.data());
            sibOrder = l2v; c.count("cases_where_both_forests_first_share_a_non_default_order");
            for (size_t i = 0; i < E.size(); i++) expectTable(w, E[i], T[i], tol, "C13:" + cfg + ":held-edge-changed", "after bringing both forests to a common order");
            for (size_t i = 0; i < ES.size(); i++) expectTable(w, ES[i], TS[i], tolFor(fsib), "C13:" + cfg + ":held-edge-changed", "sibling after bringing both forests to a common order");
            NS.clear(); for (auto& e : ES) NS.push_back(long(e.getNodeCount()));
            ESc = ES;
        } catch (MEDDLY::error& e) { if (e.getCode() != error::NOT_IMPLEMENTED) throw; c.count("reordering_not_offered"); MEDDLY::cleanup(); throw Unsupported("reorderVariables not implemented for " + cfg + " or sibling"); }
    }
    uint64_t sig = hashstr(cfg.c_str()) ^ hashstr(sh.str().c_str());
    for (auto& t : T) sig = sig * 1000003ULL ^ tableHash(t);
    bool nontriv = false;
    std::string orders;
    int rounds = r.range(1, 2);
    for (int round = 0; round < rounds; round++) {
        std::vector<int> l2v(size_t(n + 1), 0);
        for (int i = 1; i <= n; i++) l2v[size_t(i)] = i;
        if (round == 1 && r.chance(1, 2)) { /* back to the identity order */ }
        else { std::vector<int> perm(l2v.begin() + 1, l2v.end()); r.shuffle(perm); for (int i = 1; i <= n; i++) l2v[size_t(i)] = perm[size_t(i - 1)]; }
        std::string os = "["; for (int i = 1; i <= n; i++) os += tos(l2v[size_t(i)]) + (i < n ? "," : "]"); orders += os + " ";
        bool changes = false; for (int i = 1; i <= n; i++) if (F->getVarByLevel(i) != l2v[size_t(i)]) changes = true;
        bool uniform = true; for (int v = 2; v <= n; v++) if (sh.sizes[size_t(v)] != sh.sizes[1]) uniform = false;
        // known defect class (see known_findings.json): VAR swaps in relation forests whose variables have different sizes
        const std::string kb = (rel && !levelSwap && !uniform) ? std::string("C13:relation:VAR-swap:variables-of-different-sizes") : "C13:" + cfg;
        phase(kb.substr(4));
        try { F->reorderVariables(l2v.data()); }
        catch (MEDDLY::error& e) {
            if (e.getCode() == error::NOT_IMPLEMENTED) { c.count("reordering_not_offered"); c.count("not_offered:" + cfg); MEDDLY::cleanup(); throw Unsupported("reorderVariables not implemented for " + cfg); }
            throw Violation(kb + ":unexpected-error:" + e.getName(), "reorderVariables raised " + std::string(e.getName()) + " for " + cfg + " shape " + sh.str() + " target " + os);
        }
        c.count("reorderings"); c.count(std::string("heuristic:") + heurName(heur)); c.count(levelSwap ? "swap:LEVEL" : "swap:VAR");
        std::string ctx = kb + " shape " + sh.str() + " target order (level->var) " + os + " forest " + fs.str() + " holding " + tos(E.size()) + " edges";
        for (int i = 1; i <= n; i++) if (F->getVarByLevel(i) != l2v[size_t(i)])
            throw Violation(kb + ":order-not-reached", ctx + ": level " + tos(i) + " holds variable " + tos(F->getVarByLevel(i)));
        // every held edge denotes the same function of the renamed variables (evalAll places variable values by level)
        for (size_t i = 0; i < E.size(); i++) {
            Table got = evalAll(w, E[i]);
            c.count("points_evaluated", long(got.size()));
            long d = firstDiff(got, T[i], tol);
            if (d >= 0) throw Violation(kb + ":held-edge-changed", ctx + ": edge " + tos(i) + " at " + pointStr(w, rel, size_t(d)) + " now=" + got[size_t(d)].str() + " before=" + T[i][size_t(d)].str() + " table " + tableStr(T[i], 24));
        }
        // counting agrees with the function under the new order (skipped levels are scaled by the size of the variable now at that level)
        for (size_t i = 0; i < E.size(); i++) {
            long want = 0; for (const Val& v : T[i]) { bool dflt = fs.isEVP() ? v.isInf() : (v.k == Val::R ? v.r == 0 : v.i == 0); if (!dflt) want++; }
            long cl = -1; double cd = -1; apply(CARDINALITY, E[i], cl); apply(CARDINALITY, E[i], cd);
            if (cl != want || cd != double(want)) throw Violation(kb + ":cardinality-after-reorder", ctx + ": edge " + tos(i) + " CARDINALITY long=" + tos(cl) + " double=" + tos(cd) + ", non-default assignments " + tos(want));
            long visited = 0; for (dd_edge::iterator it = E[i].begin(); it; ++it) { visited++; if (visited > want + 2) break; }
            if (visited != want) throw Violation(kb + ":iterator-count-after-reorder", ctx + ": edge " + tos(i) + " iterator visits " + tos(visited) + " assignments, expected " + tos(want));
            c.count("cardinalities_after_reorder");
        }
        // canonical under the new order: audit, and rebuilding a function gives the identical edge
        try { auditForest(F, fs.kindStr(), c, "C13"); }
        catch (Violation& v) { std::string cl = v.key.substr(4); cl = cl.substr(0, cl.rfind(':')); throw Violation(kb + ":not-canonical:" + cl, ctx + ": " + v.detail); }
        for (size_t i = 0; i < E.size() && i < 3; i++) {
            dd_edge e2(F); buildFromTable(w, F, T[i], e2);
            expectTable(w, e2, T[i], tol, kb + ":rebuild-after-reorder:wrong-value", ctx);
            if (!fs.isReal() && e2 != E[i]) throw Violation(kb + ":rebuild-after-reorder:not-identical", ctx + ": edge " + tos(i) + " rebuilt from its table under the new order is a different edge");
        }
        // the forest is still usable: one more operation
        if (E.size() >= 2) { int op = fs.isBool() ? B_INTERSECTION : (fs.isEVP() ? B_MAXIMUM : B_MINIMUM); dd_edge res(F); apply(binFactory(op), E[0], E[1], res); BinModel m = modelBin(op, T[0], T[1], fs.isReal());
            expectTable(w, res, m.out, tol, kb + ":operation-after-reorder:wrong-value", ctx); }
        // the sibling forest is untouched
        for (int i = 1; i <= n; i++) if (SIB->getVarByLevel(i) != sibOrder[size_t(i)]) throw Violation(kb + ":sibling-order-changed", ctx + ": sibling forest's level " + tos(i) + " now holds variable " + tos(SIB->getVarByLevel(i)) + ", before " + tos(sibOrder[size_t(i)]));
        for (size_t i = 0; i < ES.size(); i++) {
            if (ES[i] != ESc[i] || long(ES[i].getNodeCount()) != NS[i]) throw Violation(kb + ":sibling-changed", ctx + ": sibling edge " + tos(i) + " changed");
            expectTable(w, ES[i], TS[i], tolFor(fsib), kb + ":sibling-changed", ctx);
        }
        if (changes && E.size() >= 1) nontriv = true;
    }
    auditForest(SIB, fsib.kindStr(), c, "C13");
    c.nontrivial = nontriv;
    c.sig = tos(sig ^ hashstr(orders.c_str()));
    c.sample = "{\"shape\":" + jstr(sh.str()) + ",\"forest\":" + jstr(fs.str()) + ",\"heuristic\":" + jstr(heurName(heur)) + ",\"swap\":" + jstr(levelSwap ? "LEVEL" : "VAR") + ",\"held_edges\":" + tos(E.size()) + ",\"orders\":" + jstr(orders) + "}";
    MEDDLY::cleanup();
}

int main(int argc, char** argv) { return workerMain(argc, argv, "C13", run); }

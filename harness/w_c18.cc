// C18: memory managers never hand out overlapping or corrupted chunks.
// Direct driver of memory_manager::requestChunk / recycleChunk / getChunkAddress against a
// shadow allocator (M6): interval map of live chunks + sentinel-filled contents.
#include "vcommon.h"
#include "memory.h"
#include "memstats.h"
using namespace V;

struct Live { node_address h; size_t slots; uint64_t id; };

struct Shadow {
    memory_manager* mm; int g; long mult;
    bool clrFirst, clrLast;
    std::map<long, long> iv;          // byte offset start -> end (exclusive), relative to handle 0
    std::vector<Live> live;
    uint64_t nextId = 1;
    long requests = 0, recycles = 0, verified = 0, padded = 0, moved = 0;
    std::string style;

    uint64_t pat(uint64_t id, size_t i) const { uint64_t x = id * 0x9e3779b97f4a7c15ULL + i * 0xd1342543de82ef95ULL; x ^= x >> 29; return x | 1; }
    void writeSlot(char* base, size_t i, uint64_t v, bool clearMsb) const {
        if (g == 4) { uint32_t w = uint32_t(v); if (clearMsb) w &= 0x7fffffffu; memcpy(base + 4 * i, &w, 4); }
        else { uint64_t w = v; if (clearMsb) w &= 0x7fffffffffffffffULL; memcpy(base + 8 * i, &w, 8); }
    }
    bool checkSlot(const char* base, size_t i, uint64_t v, bool clearMsb) const {
        if (g == 4) { uint32_t w = uint32_t(v), r; if (clearMsb) w &= 0x7fffffffu; memcpy(&r, base + 4 * i, 4); return r == w; }
        uint64_t w = v, r; if (clearMsb) w &= 0x7fffffffffffffffULL; memcpy(&r, base + 8 * i, 8); return r == w;
    }
    void fill(const Live& L) const {
        char* p = (char*)mm->getChunkAddress(L.h);
        for (size_t i = 0; i < L.slots; i++) writeSlot(p, i, pat(L.id, i), (i == 0 && clrFirst) || (i + 1 == L.slots && clrLast));
    }
    void verify(const Live& L, const char* when) {
        const char* p = (const char*)mm->getChunkAddress(L.h);
        for (size_t i = 0; i < L.slots; i++)
            if (!checkSlot(p, i, pat(L.id, i), (i == 0 && clrFirst) || (i + 1 == L.slots && clrLast)))
                throw Violation("C18:" + style + ":g" + tos(g) + ":content-altered",
                                std::string(when) + ": slot " + tos(i) + " of live chunk handle " + tos(L.h) + " (" + tos(L.slots) + " slots) no longer holds its sentinel");
        verified++;
    }
    void request(size_t want) {
        size_t got = want;
        phase(style + ":g" + tos(g) + ":requestChunk");
        node_address h = mm->requestChunk(got);
        requests++;
        if (h == 0 || got == 0) throw Violation("C18:" + style + ":g" + tos(g) + ":request-failed", "requestChunk(" + tos(want) + ") returned handle " + tos(h) + " size " + tos(got));
        if (got < want) throw Violation("C18:" + style + ":g" + tos(g) + ":chunk-too-small", "requestChunk(" + tos(want) + ") returned only " + tos(got) + " slots");
        if (got > want) padded++;
        long s = mult * long(h), e = s + long(got) * g;
        auto nx = iv.lower_bound(s);
        if (nx != iv.end() && nx->first < e)
            throw Violation("C18:" + style + ":g" + tos(g) + ":overlap", "chunk handle " + tos(h) + " [" + tos(s) + "," + tos(e) + ") overlaps live chunk starting at byte " + tos(nx->first));
        if (nx != iv.begin()) { auto pv = std::prev(nx); if (pv->second > s)
            throw Violation("C18:" + style + ":g" + tos(g) + ":overlap", "chunk handle " + tos(h) + " [" + tos(s) + "," + tos(e) + ") overlaps live chunk [" + tos(pv->first) + "," + tos(pv->second) + ")"); }
        iv[s] = e;
        Live L{h, got, nextId++};
        fill(L);
        live.push_back(L);
    }
    void recycleAt(size_t k) {
        Live L = live[k];
        verify(L, "before recycle");
        live[k] = live.back(); live.pop_back();
        iv.erase(mult * long(L.h));
        phase(style + ":g" + tos(g) + ":recycleChunk");
        mm->recycleChunk(L.h, L.slots);
        recycles++;
    }
    void verifyAll(const char* when) { for (const Live& L : live) verify(L, when); }
};

static void run(Ctx& c) {
    Rng& r = c.rng;
    MEDDLY::initialize();
    const memory_manager_style* styles[] = {ORIGINAL_GRID, ARRAY_PLUS_GRID, HEAP_MANAGER, MALLOC_MANAGER, FREELISTS};
    const char* names[] = {"ORIGINAL_GRID", "ARRAY_PLUS_GRID", "HEAP_MANAGER", "MALLOC_MANAGER", "FREELISTS"};
    int si = int(c.idx % 5);
    int g = ((c.idx / 5) % 2) ? 8 : 4;
    int minsize = r.chance(1, 2) ? 2 : int(r.range(3, 6));
    memstats ms;
    memory_manager* mm = styles[si]->initManager((unsigned char)g, (unsigned char)minsize, ms);
    if (!mm) { MEDDLY::cleanup(); throw Unsupported(std::string(names[si]) + " does not support granularity " + tos(g)); }
    Shadow S; S.mm = mm; S.g = g; S.style = names[si];
    S.mult = long((char*)mm->getChunkAddress(2) - (char*)mm->getChunkAddress(1));
    S.clrFirst = mm->firstSlotMustClearMSB(); S.clrLast = mm->lastSlotMustClearMSB();
    const bool fl = (si == 4);
    size_t maxBig = fl ? 15 : size_t(r.chance(1, 3) ? 700 : 120);
    auto pickSize = [&]() -> size_t {
        int k = int(r.below(10));
        size_t s;
        if (fl) s = size_t(r.range(minsize, 15));
        else if (k < 5) s = size_t(r.range(minsize, 12));
        else if (k < 8) s = size_t(r.range(minsize, 64));
        else s = size_t(r.range(minsize, int(maxBig)));
        return s;
    };
    int nphases = r.range(3, 7);
    std::string desc;
    for (int ph = 0; ph < nphases; ph++) {
        int kind = int(r.below(5));
        int n = r.range(50, c.thorough ? 3000 : 700);
        desc += (kind == 0 ? "mix" : kind == 1 ? "grow-then-every-other" : kind == 2 ? "drain-random" : kind == 3 ? "same-size-churn" : "grow-shrink-waves") + std::string("(") + tos(n) + ") ";
        switch (kind) {
            case 0:   // random mix
                for (int i = 0; i < n; i++) {
                    if (S.live.empty() || r.chance(11, 20)) S.request(pickSize());
                    else S.recycleAt(size_t(r.below(S.live.size())));
                }
                break;
            case 1: { // allocate many, free every other one (holes of every class), then refill with other sizes
                size_t start = S.live.size();
                for (int i = 0; i < n; i++) S.request(pickSize());
                for (size_t k = S.live.size(); k > start; k--) if ((k & 1) == 0) S.recycleAt(k - 1);
                for (int i = 0; i < n / 2; i++) S.request(pickSize());
                break;
            }
            case 2:   // drain in random order (adjacent holes merge)
                while (!S.live.empty() && n-- > 0) S.recycleAt(size_t(r.below(S.live.size())));
                break;
            case 3: { // churn on a few sizes (exact-fit reuse)
                size_t sz[3] = {pickSize(), pickSize(), pickSize()};
                for (int i = 0; i < n; i++) {
                    if (S.live.empty() || r.chance(1, 2)) S.request(sz[r.below(3)]);
                    else S.recycleAt(size_t(r.below(S.live.size())));
                }
                break;
            }
            default: { // waves
                for (int wv = 0; wv < 4; wv++) {
                    for (int i = 0; i < n / 4; i++) S.request(pickSize());
                    size_t keep = S.live.size() / 3;
                    while (S.live.size() > keep) S.recycleAt(size_t(r.below(S.live.size())));
                }
            }
        }
        S.verifyAll("end of phase");
    }
    while (!S.live.empty()) S.recycleAt(S.live.size() - 1);
    // after everything was recycled the manager must still serve requests
    for (int i = 0; i < 20; i++) S.request(pickSize());
    S.verifyAll("final");
    while (!S.live.empty()) S.recycleAt(0);
    c.count("requests", S.requests); c.count("recycles", S.recycles); c.count("chunk_verifications", S.verified); c.count("padded_chunks", S.padded);
    c.count(std::string("style:") + names[si] + ":g" + tos(g));
    c.nontrivial = S.requests > 50 && S.recycles > 50;
    c.sig = tos(c.idx) + "-" + tos(S.requests) + "-" + tos(S.recycles);
    c.sample = "{\"style\":" + jstr(names[si]) + ",\"granularity\":" + tos(g) + ",\"minsize\":" + tos(minsize) + ",\"phases\":" + jstr(desc) +
               ",\"requests\":" + tos(S.requests) + ",\"recycles\":" + tos(S.recycles) + "}";
    delete mm;
    MEDDLY::cleanup();
}

int main(int argc, char** argv) { return workerMain(argc, argv, "C18", run); }

// C05: element-wise arithmetic, comparisons, min/max, distance-min, distance increment,
// user-defined unary maps and range queries are pointwise; invalid scalar cases raise the
// documented error.
#include "audit.h"
#include "opsmodel.h"
#include "operations/user_unary.h"
using namespace V;

// ---- user-defined unary maps (must be global objects, like in tests/ops_user_un.cc) ----------
static void uAffine(const rangeval& x, rangeval& y) {
    if (x.isPlusInfinity()) { y = x; return; }
    if (x.isInteger()) y = 2 * long(x) + 1; else y = 2.0 * double(x) + 1.0;
}
static void uAbs(const rangeval& x, rangeval& y) {
    if (x.isPlusInfinity()) { y = x; return; }
    if (x.isInteger()) { long l = x; y = l < 0 ? -l : l; } else { double d = x; y = d < 0 ? -d : d; }
}
static void uSquareMinus(const rangeval& x, rangeval& y) {   // maps several inputs to 0
    if (x.isPlusInfinity()) { y = x; return; }
    if (x.isInteger()) { long l = x; l %= 100; y = l * l - 4; } else { double d = x; y = d * d - 4.0; }
}
static void uIsEven(const rangeval& x, rangeval& y) {
    if (x.isPlusInfinity()) { y = false; return; }
    if (x.isInteger()) y = (long(x) % 2 == 0); else { double h = double(x) / 2.0; y = (double(long(h)) == h); }
}
static user_unary_factory F_affine("vAffine", uAffine), F_abs("vAbs", uAbs), F_sqm("vSquareMinus", uSquareMinus), F_even("vIsEven", uIsEven);

static Val applyUser(int which, const Val& v, bool real) {
    rangeval y; switch (which) { case 0: uAffine(toRV(v), y); break; case 1: uAbs(toRV(v), y); break; case 2: uSquareMinus(toRV(v), y); break; default: uIsEven(toRV(v), y); }
    Val r = fromRV(y);
    if (real && r.k == Val::R) r.r = double(float(r.r));
    return r;
}

struct Pool { std::vector<forest*> f; std::vector<FSpec> s; };

static Val smallVal(Rng& r, const FSpec& fs, int cls) {
    // cls 0: general (|v| <= 30000 so products stay inside the 31-bit terminal range); 1: small; 2: distances (>= -1)
    if (fs.isReal()) {
        switch (cls) { case 1: return Val::re(0.5 * r.range(-8, 8)); case 2: return Val::re(double(r.range(-1, 6)));
            default: return Val::re(double(float(r.chance(1, 2) ? 0.25 * r.range(-400, 400) : (r.unit() - 0.5) * 200.0))); }
    }
    switch (cls) { case 1: return Val::in(r.range(-6, 6)); case 2: return Val::in(r.range(-1, 6));
        default: return Val::in(r.chance(1, 2) ? r.range(-40, 40) : r.range(-30000, 30000)); }
}

static Table genTable(Rng& r, const World& w, const FSpec& fs, int cls, bool nowhereZero, int signMode = 0, int forceShape = -1, int forceSub = -1) {
    std::vector<Val> alpha; int k = r.range(2, 5);
    for (int i = 0; i < k; i++) alpha.push_back(smallVal(r, fs, cls));
    // the neutral and absorbing elements of the operations are where the shortcuts live: make 1, -1 and 0 common values
    if (r.chance(1, 2)) alpha[0] = fs.isReal() ? Val::re(1.0) : Val::in(1);
    if (r.chance(1, 4)) alpha[1] = fs.isReal() ? Val::re(-1.0) : Val::in(-1);
    if (r.chance(1, 4)) alpha.push_back(fs.isReal() ? Val::re(0.0) : Val::in(0));
    if (signMode == 1) { for (auto& v : alpha) { if (v.k == Val::R) v.r = v.r == 0 ? 1.5 : std::fabs(v.r); else v.i = v.i == 0 ? 3 : std::labs(v.i); } }   // all stored values positive
    if (signMode == 2) { for (auto& v : alpha) { if (v.k == Val::R) v.r = v.r == 0 ? -1.5 : -std::fabs(v.r); else v.i = v.i == 0 ? -3 : -std::labs(v.i); } }   // all negative
    if (fs.isEVP() && cls != 2) for (auto& v : alpha) if (v.i < 0 && r.chance(1, 2)) v.i = -v.i;   // EV+ mostly non-negative but negatives allowed
    Table t = randomTable(r, w, fs, alpha, forceShape, forceSub);
    (void)nowhereZero;
    return t;
}

static void run(Ctx& c) {
    Rng& r = c.rng;
    bool rel = r.chance(2, 5);
    Shape sh = rel ? randomShape(r, 1, 3, 4, 25) : randomShape(r, 1, 5, 5, 400);
    // value kind
    int kk = int(r.below(rel ? 4 : 3));
    FSpec proto;
    switch (kk) {
        case 0: proto = mkSpec(rel, range_type::INTEGER, edge_labeling::MULTI_TERMINAL, reduction_rule::FULLY_REDUCED); break;
        case 1: proto = mkSpec(rel, range_type::REAL, edge_labeling::MULTI_TERMINAL, reduction_rule::FULLY_REDUCED); break;
        case 2: proto = mkSpec(rel, range_type::INTEGER, edge_labeling::EVPLUS, reduction_rule::FULLY_REDUCED); break;
        default: proto = mkSpec(rel, range_type::REAL, edge_labeling::EVTIMES, reduction_rule::FULLY_REDUCED); break;
    }
    const bool real = proto.isReal();
    Tol tol = tolFor(proto);
    if (proto.isEVT()) { tol.abs = 1e-6; tol.rel = 2e-5; }
    else if (real) { tol.abs = 3e-5; tol.rel = 1e-5; }

    MEDDLY::initialize();
    World w(sh);
    std::vector<reduction_rule> rules = {reduction_rule::FULLY_REDUCED, reduction_rule::QUASI_REDUCED};
    if (rel) rules.push_back(reduction_rule::IDENTITY_REDUCED);
    Pool P, PB;   // value forests, boolean forests (comparison results)
    for (auto rr : rules) for (int k = 0; k < 2; k++) {
        FSpec fs = proto; fs.rr = rr; randomPolicy(r, fs);
        P.s.push_back(fs); P.f.push_back(makeForest(w.dom, fs));
    }
    for (auto rr : rules) {
        FSpec fs = mkSpec(rel, range_type::BOOLEAN, edge_labeling::MULTI_TERMINAL, rr); randomPolicy(r, fs);
        PB.s.push_back(fs); PB.f.push_back(makeForest(w.dom, fs));
    }
    int nf = int(P.f.size());
    bool threw = false;
    uint64_t sig = 0; std::string ops; bool nontriv = false;
    int nops = r.range(4, 10);
    for (int step = 0; step < nops; step++) {
        int pick = int(r.below(24));
        int fa = int(r.below(uint64_t(nf))), fb = int(r.below(uint64_t(nf))), fc = int(r.below(uint64_t(nf)));
        if (pick < 17) {
            // ---------------- binary ----------------
            int op = B_PLUS + pick;   // B_PLUS..B_GE  (17 - ... ) ; pick in 0..13 valid
            if (op > B_GE) op = B_PLUS + int(r.below(uint64_t(B_GE - B_PLUS + 1)));
            if (op == B_DISTMIN && !proto.isMT()) op = B_MINIMUM;
            if (op == B_MODULO && (real)) op = B_DIVIDE;
            int cls = (op == B_MULTIPLY || op == B_DIVIDE || op == B_MODULO) ? (r.chance(1, 2) ? 1 : 0) : (op == B_DISTMIN ? 2 : int(r.below(2)));
            const bool cmp = isCompare(op);
            if (cmp && real && proto.isMT()) cls = 1;   // exact lane: multiples of 0.5 are fixed points of the terminal rounding
            bool wantZeroDiv = (op == B_DIVIDE || op == B_MODULO) && !real && r.chance(1, 5);
            bool nz = (op == B_DIVIDE || op == B_MODULO) && !wantZeroDiv;
            Table ta = genTable(r, w, P.s[size_t(fa)], cls, false);
            Table tb = r.chance(1, 8) ? ta : genTable(r, w, P.s[size_t(fb)], cls, nz, 0, (rel && r.chance(1, 4)) ? 6 : -1);
            if (nz) for (auto& v : tb) { if (!v.isInf() && (v.k == Val::R ? v.r == 0 : v.i == 0)) v = real ? Val::re(2.5) : Val::in(7); }
            // EV+ DIVIDE, one case in four: the divisor is 0 exactly at some points where the numerator is +infinity (inf/0 is a
            // division by zero like any other) and non-zero everywhere else
            if (op == B_DIVIDE && proto.isEVP() && r.chance(1, 4)) {
                bool any = false;
                for (size_t i = 0; i < ta.size(); i++) {
                    if (ta[i].isInf() && r.chance(1, 2)) { tb[i] = Val::in(0); any = true; }
                    else if (!tb[i].isInf() && tb[i].i == 0) tb[i] = Val::in(7);
                }
                if (any) c.count("divisor_zero_only_under_infinite_numerator");
            }
            if (op == B_MULTIPLY && !real) {   // keep |a*b| < 2^30
                for (size_t i = 0; i < ta.size(); i++) if (!ta[i].isInf() && !tb[i].isInf() && std::labs(ta[i].i) > 1 && std::labs(tb[i].i) > 30000) tb[i].i %= 30000;
            }
            bool sameOperand = (fa == fb) && r.chance(1, 6);
            if (sameOperand) { if (nz) ta = tb; else tb = ta; }
            dd_edge ea(P.f[size_t(fa)]), eb(P.f[size_t(fb)]);
            buildChecked(w, P.f[size_t(fa)], P.s[size_t(fa)], ta, ea, "C05");
            if (sameOperand) eb = ea; else buildChecked(w, P.f[size_t(fb)], P.s[size_t(fb)], tb, eb, "C05");
            BinModel m = modelBin(op, ta, tb, real);
            if (cmp && proto.isEVT()) {
                // EV* values are products of float edge values: a value is only known to relative 1e-5, so the
                // order of two (nearly) equal non-zero values is not determined; such points are not asserted.
                for (size_t i = 0; i < ta.size(); i++) {
                    double x = ta[i].r, y = tb[i].r;
                    if (x == 0 && y == 0) continue;
                    if (std::fabs(x - y) <= 1e-4 * std::max(std::fabs(x), std::fabs(y))) { if (!m.skip[i]) { m.skip[i] = true; m.nskip++; } }
                }
            }
            // classify where the invalid scalar cases are (from the inputs only; used in violation keys)
            std::string errPattern = "general";
            if (m.hasErr) {
                bool allAbsorb = true, wholeRows = true;
                // absorbing first operands: +infinity (EV+), 0 in MT forests, and 0 for DIVIDE / MODULO in every forest (0/x = 0%x = 0)
                auto absorbing = [&](const Val& v) { return v.isInf() || ((!proto.isEVP() || op == B_DIVIDE || op == B_MODULO) && (v.k == Val::R ? v.r == 0 : v.i == 0)); };
                // the bottom row of a point: all points that differ from it only in the lowest level (x1 for sets, x1' for relations)
                const size_t rowLen = size_t(rel ? w.shapeP.sizes[1] : w.shape.sizes[1]);
                for (size_t i = 0; i < ta.size(); i++) {
                    SR s1 = scalarBin(op, ta[i], tb[i], real);
                    if (s1.t != SR::ERR) continue;
                    if (!absorbing(ta[i])) allAbsorb = false;
                    size_t row0 = i - (i % rowLen);
                    for (size_t j = row0; j < row0 + rowLen; j++) if (!absorbing(ta[j])) wholeRows = false;
                }
                if (sameOperand || (fa == fb && firstDiff(ta, tb) < 0)) errPattern = "equal-operand-edges";
                // known class: the first operand is absorbing on the WHOLE bottom row of every invalid point (its diagram has the
                // transparent edge above the terminals there and the 'simplifies to first argument' shortcut never looks at the second
                // operand).  If some invalid point sits in a row where the first operand also takes other values, the recursion
                // reaches the terminals for that row and the error must be raised.
                else if (allAbsorb && wholeRows) errPattern = "invalid-only-where-first-operand-is-zero-or-infinite";
                // (observed on the unchanged tree: MODULO and MINUS miss the error in mixed rows too -- their terminal-level code tests
                //  the first operand first -- and so does DIVIDE in relation forests; DIVIDE on sets tests the divisor first)
                else if (allAbsorb && op == B_DIVIDE && !rel) errPattern = "invalid-only-where-first-operand-is-zero-or-infinite-but-inside-mixed-bottom-rows-of-a-set";
                else if (allAbsorb) errPattern = "invalid-only-where-first-operand-is-zero-or-infinite";
            }
            int fcb = int(r.below(PB.f.size()));
            forest* fres = cmp ? PB.f[size_t(fcb)] : P.f[size_t(fc)];
            const FSpec& sres = cmp ? PB.s[size_t(fcb)] : P.s[size_t(fc)];
            dd_edge res(fres);
            std::string ctx = std::string(binName(op)) + " " + P.s[size_t(fa)].str() + "," + P.s[size_t(fb)].str() + "->" + sres.str() + " shape " + sh.str() +
                              " A=" + tableStr(ta, 24) + " B=" + tableStr(tb, 24);
            std::string kbase = "C05:" + std::string(binName(op)) + ":" + proto.kindStr().substr(0, proto.kindStr().rfind('/')) + ":" +
                                shortNameOf(P.s[size_t(fa)].rr) + "," + shortNameOf(P.s[size_t(fb)].rr) + "->" + shortNameOf(sres.rr);
            bool gotErr = false; int code = 0;
            try {
                if (!applyBin(c, binFactory(op), ea, eb, res)) continue;
            } catch (MEDDLY::error& e) { gotErr = true; code = int(e.getCode()); threw = true; }
            c.count(std::string("apply_") + binName(op));
            if (m.hasErr) {
                c.count("expected_error_cases");
                c.count("expected_error_" + errPattern);
                if (!gotErr) throw Violation("C05:" + std::string(binName(op)) + ":missing-error:" + errPattern, ctx + ": an invalid scalar case is present but no error was raised");
                if (!m.errCodes.count(code)) {
                    // with unspecified points present (inf%0, x/inf, ...) any of the documented arithmetic errors is acceptable
                    bool arith = code == int(error::DIVIDE_BY_ZERO) || code == int(error::INFINITY_DIV_INFINITY) || code == int(error::SUBTRACT_INFINITY);
                    if (!(m.nskip > 0 && arith)) throw Violation(kbase + ":wrong-error-code", ctx + ": raised error code " + tos(code));
                }
                continue;
            }
            if (gotErr && m.nskip > 0) { c.count("error_on_input_with_unspecified_points"); continue; }
            if (gotErr) throw Violation(kbase + ":unexpected-error", ctx + ": raised error code " + tos(code) + " although every point is valid");
            Table got = evalAll(w, res);
            c.count("points_evaluated", long(got.size()));
            Table want(m.out.size());
            for (size_t i = 0; i < want.size(); i++) want[i] = m.skip[i] ? got[i] : asKind(m.out[i], sres);
            long d = -1;
            for (size_t i = 0; i < got.size() && d < 0; i++) {
                if (m.skip[i]) continue;
                Tol ti = tol;
                if (real && !cmp) {
                    // operands are stored to absolute 0.5e-5 (MT terminals) / relative 1e-5 (EV* products): propagate
                    double ma = std::fabs(ta[i].r), mb = std::fabs(tb[i].r);
                    ti.abs += tol.rel * (ma + mb);
                    if (op == B_MULTIPLY) ti.abs += 1.5e-5 * (ma + mb);
                    if (op == B_DIVIDE && mb > 0) ti.abs += 1.5e-5 * (1.0 + ma / mb) / mb;
                }
                if (!valEq(got[i], want[i], ti)) d = long(i);
            }
            if (d >= 0) throw Violation(kbase + ":wrong-value", ctx + ": at " + pointStr(w, rel, size_t(d)) + " library=" + got[size_t(d)].str() + " model=" + want[size_t(d)].str());
            c.count("unspecified_points_skipped", m.nskip);
            // operands unchanged
            expectTable(w, ea, ta, tolFor(P.s[size_t(fa)]), kbase + ":operand-changed", ctx);
            expectTable(w, eb, tb, tolFor(P.s[size_t(fb)]), kbase + ":operand-changed", ctx);
            if (firstDiff(want, ta, tol) >= 0 && firstDiff(want, tb, tol) >= 0) nontriv = true;
            sig = sig * 1000003ULL ^ tableHash(ta) ^ (tableHash(tb) << 1) ^ uint64_t(op);
            if (ops.size() < 300) ops += std::string(binName(op)) + " A=" + tableStr(ta, 8) + " B=" + tableStr(tb, 8) + "; ";
        } else if (pick < 20) {
            // ---------------- user unary ----------------
            int which = int(r.below(4));
            user_unary_factory* UF[] = {&F_affine, &F_abs, &F_sqm, &F_even};
            // one third of the cases each: every stored value positive / negative, so that an implicit 0 (default, skipped identity) is the extreme
            Table ta = genTable(r, w, P.s[size_t(fa)], int(r.below(2)), false, int(r.below(3)), (rel && r.chance(1, 2)) ? 6 : -1, r.chance(1, 2) ? 2 : -1);   // relations: half the tables are identity patterns, half of those block-diagonal
            dd_edge ea(P.f[size_t(fa)]);
            buildChecked(w, P.f[size_t(fa)], P.s[size_t(fa)], ta, ea, "C05");
            int fcb = int(r.below(PB.f.size()));
            forest* fres = which == 3 ? PB.f[size_t(fcb)] : P.f[size_t(fc)];
            const FSpec& sres = which == 3 ? PB.s[size_t(fcb)] : P.s[size_t(fc)];
            if (proto.isEVT()) continue;   // user maps on EV* are not in the test catalogue; keep to MT / EV+
            dd_edge res(fres);
            std::string ctx = std::string("user_unary ") + UF[which]->getName() + " " + P.s[size_t(fa)].str() + "->" + sres.str() + " shape " + sh.str() + " A=" + tableStr(ta, 24);
            std::string kbase = std::string("C05:user_unary:") + UF[which]->getName() + ":" + proto.kindStr().substr(0, proto.kindStr().rfind('/')) + ":" + shortNameOf(P.s[size_t(fa)].rr) + "->" + shortNameOf(sres.rr);
            phase(kbase);
            unary_operation* uop = nullptr;
            try { uop = UF[which]->build(P.f[size_t(fa)], fres); } catch (MEDDLY::error& e) { if (e.getCode() == error::TYPE_MISMATCH || e.getCode() == error::NOT_IMPLEMENTED) { c.count("combination_not_offered"); continue; } throw; }
            if (!uop) { c.count("combination_not_offered"); continue; }
            uop->compute(ea, res);
            c.count("apply_user_unary");
            Table want(ta.size());
            for (size_t i = 0; i < ta.size(); i++) want[i] = asKind(applyUser(which, ta[i], real), sres);
            Table got = evalAll(w, res);
            c.count("points_evaluated", long(got.size()));
            long d = firstDiff(got, want, tol);
            if (d >= 0) throw Violation(kbase + ":wrong-value", ctx + ": at " + pointStr(w, rel, size_t(d)) + " library=" + got[size_t(d)].str() + " model=" + want[size_t(d)].str());
            nontriv = true;
            sig = sig * 1000003ULL ^ tableHash(ta) ^ uint64_t(100 + which);
        } else if (pick < 22) {
            // ---------------- MAX_RANGE / MIN_RANGE (MT only) ----------------
            if (!proto.isMT()) continue;
            Table ta = genTable(r, w, P.s[size_t(fa)], int(r.below(2)), false);
            dd_edge ea(P.f[size_t(fa)]);
            buildChecked(w, P.f[size_t(fa)], P.s[size_t(fa)], ta, ea, "C05");
            Val mx = ta[0], mn = ta[0];
            for (auto& v : ta) { if (valLess(mx, v)) mx = v; if (valLess(v, mn)) mn = v; }
            // extremes over the non-zero entries only (to name the known "zeros are ignored" symptom precisely)
            Val mxnz = mx, mnnz = mn; bool havenz = false;
            for (auto& v : ta) { bool z = v.k == Val::R ? v.r == 0 : v.i == 0; if (z) continue;
                if (!havenz) { mxnz = mnnz = v; havenz = true; } else { if (valLess(mxnz, v)) mxnz = v; if (valLess(v, mnnz)) mnnz = v; } }
            std::string kbase = "C05:RANGE:" + proto.kindStr().substr(0, proto.kindStr().rfind('/')) + ":" + shortNameOf(P.s[size_t(fa)].rr);
            std::string ctx = "range of " + P.s[size_t(fa)].str() + " shape " + sh.str() + " A=" + tableStr(ta, 24);
            phase(kbase);
            if (real) {
                double gmx = 0, gmn = 0;
                apply(MAX_RANGE, ea, gmx); apply(MIN_RANGE, ea, gmn);
                if (!valEq(Val::re(gmx), mx, tol)) throw Violation(valEq(Val::re(gmx), mxnz, tol) && mx.r == 0 ? "C05:MAX_RANGE:ignores-zero-entries" : kbase + ":max-wrong", ctx + ": MAX_RANGE=" + tos(gmx) + " model=" + mx.str());
                if (!valEq(Val::re(gmn), mn, tol)) throw Violation(valEq(Val::re(gmn), mnnz, tol) && mn.r == 0 ? "C05:MIN_RANGE:ignores-zero-entries" : kbase + ":min-wrong", ctx + ": MIN_RANGE=" + tos(gmn) + " model=" + mn.str());
            } else {
                long gmx = 0, gmn = 0;
                apply(MAX_RANGE, ea, gmx); apply(MIN_RANGE, ea, gmn);
                if (gmx != mx.i) throw Violation(gmx == mxnz.i && mx.i == 0 ? "C05:MAX_RANGE:ignores-zero-entries" : kbase + ":max-wrong", ctx + ": MAX_RANGE=" + tos(gmx) + " model=" + mx.str());
                if (gmn != mn.i) throw Violation(gmn == mnnz.i && mn.i == 0 ? "C05:MIN_RANGE:ignores-zero-entries" : kbase + ":min-wrong", ctx + ": MIN_RANGE=" + tos(gmn) + " model=" + mn.str());
            }
            c.count("apply_RANGE");
            sig = sig * 1000003ULL ^ tableHash(ta) ^ 555;
            if (!valEq(mx, mn)) nontriv = true;
        } else {
            // ---------------- DIST_INC (MT integer) ----------------
            if (!(proto.isMT() && proto.isInt())) continue;
            Table ta = genTable(r, w, P.s[size_t(fa)], 2, false);
            if (r.chance(1, 2)) for (auto& v : ta) if (v.i == 0 && r.chance(1, 2)) v.i = -1;
            dd_edge ea(P.f[size_t(fa)]), res(P.f[size_t(fc)]);
            buildChecked(w, P.f[size_t(fa)], P.s[size_t(fa)], ta, ea, "C05");
            std::string kbase = std::string("C05:DIST_INC:") + shortNameOf(P.s[size_t(fa)].rr) + "->" + shortNameOf(P.s[size_t(fc)].rr) + (rel ? ":rel" : ":set");
            if (rel && P.s[size_t(fa)].rr == reduction_rule::IDENTITY_REDUCED) kbase = "C05:DIST_INC:rel:identity-reduced-argument";
            std::string ctx = "DIST_INC " + P.s[size_t(fa)].str() + "->" + P.s[size_t(fc)].str() + " shape " + sh.str() + " A=" + tableStr(ta, 24);
            if (!applyUn(c, DIST_INC(), ea, res)) continue;
            Table want(ta.size());
            for (size_t i = 0; i < ta.size(); i++) want[i] = ta[i].i >= 0 ? Val::in(ta[i].i + 1) : ta[i];
            Table got = evalAll(w, res);
            long d = firstDiff(got, want);
            if (d >= 0) throw Violation(kbase + ":wrong-value", ctx + ": at " + pointStr(w, rel, size_t(d)) + " library=" + got[size_t(d)].str() + " model=" + want[size_t(d)].str());
            c.count("apply_DIST_INC");
            nontriv = true;
            sig = sig * 1000003ULL ^ tableHash(ta) ^ 777;
        }
        if (r.chance(1, 10)) { P.f[r.below(uint64_t(nf))]->removeAllComputeTableEntries(); c.count("cache_clears"); }
    }
    AuditOpts o; o.refcounts = !threw; o.cachecounts = !threw;
    for (size_t i = 0; i < P.f.size(); i++) auditForest(P.f[i], P.s[i].kindStr(), c, "C05", o);
    for (size_t i = 0; i < PB.f.size(); i++) auditForest(PB.f[i], PB.s[i].kindStr(), c, "C05", o);
    c.nontrivial = nontriv;
    c.sig = tos(sig ^ hashstr(sh.str().c_str()) ^ hashstr(proto.kindStr().c_str()));
    c.count("kind:" + proto.kindStr());
    c.sample = "{\"shape\":" + jstr(sh.str()) + ",\"kind\":" + jstr(proto.kindStr()) + ",\"ops\":" + jstr(ops) + "}";
    MEDDLY::cleanup();
}

int main(int argc, char** argv) { return workerMain(argc, argv, "C05", run); }

// C04: set algebra (UNION, INTERSECTION, DIFFERENCE, COMPLEMENT, CROSS) is pointwise, for
// every assignment of operand/result forests (incl. distinct forests with the same rule),
// cold and warm compute tables; operands are never changed.
//   cases [0, NEXH)   : exhaustive enumeration on tiny domains (one case per forest assignment)
//   cases [NEXH, ...) : random larger non-uniform domains
#include "audit.h"
#include "opsmodel.h"
using namespace V;

static const int N_SET_ASSIGN = 64;    // 4^3 (fa, fb, fc) over {FR1,FR2,QR1,QR2}
static const int N_REL_ASSIGN = 216;   // 6^3 over {FR1,FR2,QR1,QR2,IR1,IR2}
static const int N_CROSS_ASSIGN = 96;  // 4*4*6
static const int NEXH = N_SET_ASSIGN + N_REL_ASSIGN + N_CROSS_ASSIGN;

struct Forests {
    std::vector<forest*> f; std::vector<FSpec> s;
};
static Forests makeBoolForests(Rng& r, World& w, bool rel, bool randomPol) {
    Forests F;
    std::vector<reduction_rule> rules = {reduction_rule::FULLY_REDUCED, reduction_rule::QUASI_REDUCED};
    if (rel) rules.push_back(reduction_rule::IDENTITY_REDUCED);
    for (auto rr : rules) for (int k = 0; k < 2; k++) {
        FSpec fs = mkSpec(rel, range_type::BOOLEAN, edge_labeling::MULTI_TERMINAL, rr);
        if (randomPol) randomPolicy(r, fs);
        F.s.push_back(fs); F.f.push_back(makeForest(w.dom, fs));
    }
    return F;
}

static Table tableOfMask(unsigned mask, size_t n) {
    Table t(n); for (size_t i = 0; i < n; i++) t[i] = Val::b((mask >> i) & 1); return t;
}

static void checkResult(Ctx& c, const World& w, const dd_edge& res, const Table& want, const std::string& opname,
                        const FSpec& fa, const FSpec& fb, const FSpec& fc, const std::string& ctx) {
    Table got = evalAll(w, res);
    c.count("points_evaluated", long(got.size()));
    long d = firstDiff(got, want);
    if (d >= 0)
        throw Violation("C04:" + opname + ":" + shortNameOf(fa.rr) + "," + shortNameOf(fb.rr) + "->" + shortNameOf(fc.rr) + (fc.rel ? ":rel" : ":set") + ":wrong-value",
                        ctx + ": at " + pointStr(w, fc.rel, size_t(d)) + " library=" + got[size_t(d)].str() + " model=" + want[size_t(d)].str());
}

static void operandsIntact(Ctx& c, const World& w, const dd_edge& a, const dd_edge& acopy, const Table& ta, const std::string& opname, const std::string& ctx) {
    if (a != acopy) throw Violation("C04:" + opname + ":operand-changed", ctx + ": operand edge differs from its saved copy after the call");
    Table got = evalAll(w, a);
    if (firstDiff(got, ta) >= 0) throw Violation("C04:" + opname + ":operand-changed", ctx + ": operand denotes a different function after the call");
    c.count("operand_rechecks");
}

static void exhaustive(Ctx& c) {
    Rng& r = c.rng;
    long idx = c.idx;
    MEDDLY::initialize();
    if (idx < N_SET_ASSIGN + N_REL_ASSIGN) {
        bool rel = idx >= N_SET_ASSIGN;
        long a = rel ? idx - N_SET_ASSIGN : idx;
        Shape sh; sh.sizes = rel ? std::vector<int>{0, 2} : std::vector<int>{0, 2, 2};
        World w(sh);
        Forests F = makeBoolForests(r, w, rel, false);
        int nf = int(F.f.size());
        int ia = int(a % nf), ib = int((a / nf) % nf), ic = int(a / nf / nf);
        size_t n = size_t(w.tableSize(rel));   // 4 in both cases
        std::vector<dd_edge> A, B;
        for (unsigned m = 0; m < 16; m++) {
            dd_edge ea(F.f[size_t(ia)]), eb(F.f[size_t(ib)]);
            buildChecked(w, F.f[size_t(ia)], F.s[size_t(ia)], tableOfMask(m, n), ea, "C04 exhaustive");
            buildChecked(w, F.f[size_t(ib)], F.s[size_t(ib)], tableOfMask(m, n), eb, "C04 exhaustive");
            A.push_back(ea); B.push_back(eb);
        }
        for (int pass = 0; pass < 2; pass++) {   // pass 0: compute tables cold at start, warming; pass 1: warm, reverse order
            for (unsigned q = 0; q < 256; q++) {
                unsigned p = pass ? 255 - q : q;
                unsigned ma = p & 15, mb = p >> 4;
                Table ta = tableOfMask(ma, n), tb = tableOfMask(mb, n);
                for (int op = B_UNION; op <= B_DIFFERENCE; op++) {
                    dd_edge res(F.f[size_t(ic)]);
                    dd_edge ac(A[ma]), bc(B[mb]);
                    if (!applyBin(c, binFactory(op), A[ma], B[mb], res)) continue;
                    BinModel m = modelBin(op, ta, tb, false);
                    std::string ctx = std::string(binName(op)) + " masks " + tos(ma) + "," + tos(mb) + " forests " + tos(ia) + "," + tos(ib) + "->" + tos(ic) + (rel ? " (1-var relation)" : " (2x2 set)");
                    checkResult(c, w, res, m.out, binName(op), F.s[size_t(ia)], F.s[size_t(ib)], F.s[size_t(ic)], ctx);
                    operandsIntact(c, w, A[ma], ac, ta, binName(op), ctx);
                    operandsIntact(c, w, B[mb], bc, tb, binName(op), ctx);
                    c.count(rel ? "exhaustive_rel_applies" : "exhaustive_set_applies");
                }
            }
            // complement of every function of forest ia into forest ic
            for (unsigned ma = 0; ma < 16; ma++) {
                dd_edge res(F.f[size_t(ic)]);
                if (!applyUn(c, COMPLEMENT(), A[ma], res)) continue;
                Table want = tableOfMask(~ma & 15, n);
                checkResult(c, w, res, want, "COMPLEMENT", F.s[size_t(ia)], F.s[size_t(ia)], F.s[size_t(ic)], "COMPLEMENT mask " + tos(ma));
                c.count("exhaustive_complements");
            }
        }
        A.clear(); B.clear();
        for (size_t i = 0; i < F.f.size(); i++) auditForest(F.f[i], F.s[i].kindStr(), c, "C04");
        c.nontrivial = true;
        c.sig = "exh-" + tos(idx);
        c.sample = "{\"exhaustive\":" + jstr(rel ? "all 16x16 pairs of relations over one binary variable" : "all 16x16 pairs of sets over 2x2") +
                   ",\"forests\":" + jstr(F.s[size_t(ia)].kindStr() + "#" + tos(ia) + ", " + F.s[size_t(ib)].kindStr() + "#" + tos(ib) + " -> " + F.s[size_t(ic)].kindStr() + "#" + tos(ic)) + "}";
    } else {
        long a = idx - N_SET_ASSIGN - N_REL_ASSIGN;
        Shape sh; sh.sizes = {0, 2, 2};
        World w(sh);
        Forests S = makeBoolForests(r, w, false, false), R = makeBoolForests(r, w, true, false);
        int ia = int(a % 4), ib = int((a / 4) % 4), ic = int(a / 16);
        for (unsigned ma = 0; ma < 16; ma++) for (unsigned mb = 0; mb < 16; mb++) {
            Table ta = tableOfMask(ma, 4), tb = tableOfMask(mb, 4);
            dd_edge ea(S.f[size_t(ia)]), eb(S.f[size_t(ib)]), res(R.f[size_t(ic)]);
            buildChecked(w, S.f[size_t(ia)], S.s[size_t(ia)], ta, ea, "C04 cross");
            buildChecked(w, S.f[size_t(ib)], S.s[size_t(ib)], tb, eb, "C04 cross");
            if (!applyBin(c, CROSS(), ea, eb, res)) continue;
            Table want(16);
            for (size_t x = 0; x < 4; x++) for (size_t y = 0; y < 4; y++) want[x * 4 + y] = Val::b(ta[x].truthy() && tb[y].truthy());
            checkResult(c, w, res, want, "CROSS", S.s[size_t(ia)], S.s[size_t(ib)], R.s[size_t(ic)], "CROSS masks " + tos(ma) + "," + tos(mb));
            c.count("exhaustive_cross_applies");
        }
        for (size_t i = 0; i < R.f.size(); i++) auditForest(R.f[i], R.s[i].kindStr(), c, "C04");
        c.nontrivial = true;
        c.sig = "exh-" + tos(idx);
        c.sample = "{\"exhaustive\":\"CROSS of all 16x16 pairs of sets over 2x2\"}";
    }
    MEDDLY::cleanup();
}

static void randomCase(Ctx& c) {
    Rng& r = c.rng;
    bool rel = r.chance(1, 2);
    Shape sh = rel ? randomShape(r, 1, 4, 4, 30) : randomShape(r, 1, 5, 5, 600);
    MEDDLY::initialize();
    World w(sh);
    Forests F = makeBoolForests(r, w, rel, true);
    Forests S;   // set forests for CROSS when rel
    if (rel) S = makeBoolForests(r, w, false, true);
    FSpec proto = F.s[0];
    std::vector<Val> alpha = {Val::b(true)};
    int nf = int(F.f.size());
    // a small pool of functions, each living in a random forest
    int npool = r.range(3, 6);
    std::vector<Table> T; std::vector<dd_edge> E; std::vector<int> where;
    for (int i = 0; i < npool; i++) {
        int fi = int(r.below(uint64_t(nf)));
        Table t = randomTable(r, w, F.s[size_t(fi)], alpha);
        dd_edge e(F.f[size_t(fi)]);
        buildChecked(w, F.f[size_t(fi)], F.s[size_t(fi)], t, e, "C04");
        T.push_back(t); E.push_back(e); where.push_back(fi);
    }
    int nops = r.range(6, 20);
    uint64_t sig = 0; std::string ops;
    bool nontriv = false;
    for (int step = 0; step < nops; step++) {
        int k = int(r.below(10));
        int ia = int(r.below(E.size())), ib = int(r.below(E.size()));
        int fc = int(r.below(uint64_t(nf)));
        if (k < 7) {
            int op = B_UNION + int(r.below(3));
            dd_edge res(F.f[size_t(fc)]);
            dd_edge ac(E[size_t(ia)]), bc(E[size_t(ib)]);
            if (!applyBin(c, binFactory(op), E[size_t(ia)], E[size_t(ib)], res)) continue;
            BinModel m = modelBin(op, T[size_t(ia)], T[size_t(ib)], false);
            std::string ctx = std::string(binName(op)) + " shape " + sh.str() + " " + F.s[size_t(where[size_t(ia)])].str() + "#" + tos(where[size_t(ia)]) + "," +
                              F.s[size_t(where[size_t(ib)])].str() + "#" + tos(where[size_t(ib)]) + "->" + F.s[size_t(fc)].str() + "#" + tos(fc);
            checkResult(c, w, res, m.out, binName(op), F.s[size_t(where[size_t(ia)])], F.s[size_t(where[size_t(ib)])], F.s[size_t(fc)], ctx);
            operandsIntact(c, w, E[size_t(ia)], ac, T[size_t(ia)], binName(op), ctx);
            operandsIntact(c, w, E[size_t(ib)], bc, T[size_t(ib)], binName(op), ctx);
            c.count(std::string("apply_") + binName(op));
            if (where[size_t(ia)] != where[size_t(ib)] && F.s[size_t(where[size_t(ia)])].rr == F.s[size_t(where[size_t(ib)])].rr) c.count("distinct_forests_same_rule");
            if (firstDiff(m.out, T[size_t(ia)]) >= 0 && firstDiff(m.out, T[size_t(ib)]) >= 0) nontriv = true;
            sig = sig * 1000003ULL ^ tableHash(m.out) ^ uint64_t(op);
            if (ops.size() < 300) ops += std::string(binName(op)) + "(" + tos(ia) + "," + tos(ib) + ")->f" + tos(fc) + "; ";
            // keep the result as a new pool member (warm tables, chains of operations)
            if (r.chance(1, 2)) { T.push_back(m.out); E.push_back(res); where.push_back(fc); }
        } else if (k < 9 || !rel) {
            dd_edge res(F.f[size_t(fc)]);
            dd_edge ac(E[size_t(ia)]);
            if (!applyUn(c, COMPLEMENT(), E[size_t(ia)], res)) continue;
            Table want(T[size_t(ia)].size());
            for (size_t i = 0; i < want.size(); i++) want[i] = Val::b(!T[size_t(ia)][i].truthy());
            std::string ctx = "COMPLEMENT shape " + sh.str() + " " + F.s[size_t(where[size_t(ia)])].str() + "->" + F.s[size_t(fc)].str();
            checkResult(c, w, res, want, "COMPLEMENT", F.s[size_t(where[size_t(ia)])], F.s[size_t(where[size_t(ia)])], F.s[size_t(fc)], ctx);
            operandsIntact(c, w, E[size_t(ia)], ac, T[size_t(ia)], "COMPLEMENT", ctx);
            c.count("apply_COMPLEMENT");
            sig = sig * 1000003ULL ^ tableHash(want) ^ 77;
            if (r.chance(1, 2)) { T.push_back(want); E.push_back(res); where.push_back(fc); }
        } else {
            // CROSS: two fresh sets -> relation
            int sa = int(r.below(S.f.size())), sb = int(r.below(S.f.size()));
            Table ta = randomTable(r, w, S.s[size_t(sa)], alpha), tb = randomTable(r, w, S.s[size_t(sb)], alpha);
            dd_edge ea(S.f[size_t(sa)]), eb(S.f[size_t(sb)]), res(F.f[size_t(fc)]);
            buildChecked(w, S.f[size_t(sa)], S.s[size_t(sa)], ta, ea, "C04 cross");
            buildChecked(w, S.f[size_t(sb)], S.s[size_t(sb)], tb, eb, "C04 cross");
            if (!applyBin(c, CROSS(), ea, eb, res)) continue;
            Table want(size_t(w.N * w.N));
            for (long x = 0; x < w.N; x++) for (long y = 0; y < w.N; y++) want[size_t(x * w.N + y)] = Val::b(ta[size_t(x)].truthy() && tb[size_t(y)].truthy());
            std::string ctx = "CROSS shape " + sh.str() + " " + S.s[size_t(sa)].str() + " x " + S.s[size_t(sb)].str() + "->" + F.s[size_t(fc)].str();
            checkResult(c, w, res, want, "CROSS", S.s[size_t(sa)], S.s[size_t(sb)], F.s[size_t(fc)], ctx);
            c.count("apply_CROSS");
            sig = sig * 1000003ULL ^ tableHash(want) ^ 99;
            if (r.chance(1, 2)) { T.push_back(want); E.push_back(res); where.push_back(fc); }
        }
        if (r.chance(1, 12)) { F.f[r.below(uint64_t(nf))]->removeAllComputeTableEntries(); c.count("cache_clears"); }
    }
    // all pool members still denote their tables
    for (size_t i = 0; i < E.size(); i++) expectTable(w, E[i], T[i], EXACT, "C04:held-edge-changed", "held edge " + tos(i));
    E.clear();
    for (size_t i = 0; i < F.f.size(); i++) auditForest(F.f[i], F.s[i].kindStr(), c, "C04");
    c.nontrivial = nontriv;
    c.sig = tos(sig ^ hashstr(sh.str().c_str()));
    c.sample = "{\"shape\":" + jstr(sh.str()) + ",\"relation\":" + (rel ? "true" : "false") + ",\"ops\":" + jstr(ops) + "}";
    c.count(rel ? "random_rel_cases" : "random_set_cases");
    MEDDLY::cleanup();
}

static void run(Ctx& c) { if (c.idx < NEXH) exhaustive(c); else randomCase(c); }
int main(int argc, char** argv) { return workerMain(argc, argv, "C04", run); }

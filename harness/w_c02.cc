// C02: every stored node obeys the forest's declared reduction rule -- M1 structural audit
// (plus M2/M3 counts) after EVERY step of scripted histories, every forest kind and policy.
#include "script.h"
using namespace V;

static void run(Ctx& c) {
    Rng& r = c.rng;
    ScriptOpts so; so.minSteps = 20; so.maxSteps = c.thorough ? 160 : 70; so.maxSetPoints = 200; so.maxRelStates = 16;
    so.wideShapes = true;
    Script S = genScript(r, so);
    if (*std::max_element(S.shape.sizes.begin(), S.shape.sizes.end()) >= 10) c.count("wide_variable_shapes");
    Config cfg = randomConfig(r, S.forests.size(), true);
    ExecOpts eo; eo.prop = "C02"; eo.auditEvery = 1; eo.canon = true; eo.reevalEvery = 5;
    runScript(S, cfg, c, eo);
    uint64_t sig = hashstr(S.str().c_str()); for (auto& st : S.steps) sig = sig * 1000003ULL ^ uint64_t(st.k * 31 + st.op) ^ (st.table.empty() ? 0 : tableHash(st.table));
    c.sig = tos(sig);
    c.nontrivial = c.counters["audit_nodes"] > 20;
    for (auto& f : S.forests) c.count("kind:" + f.kindStr());
    for (size_t i = 0; i < cfg.st.size(); i++) c.count("policy:" + tos(cfg.st[i]) + tos(cfg.mm[i]) + tos(cfg.del[i]));
    std::string ops; for (size_t i = 0; i < S.steps.size() && i < 25; i++) ops += std::string(stepName(S.steps[i].k)) + (S.steps[i].k == S_BIN ? std::string(":") + binName(S.steps[i].op) : std::string()) + " ";
    c.sample = "{\"script\":" + jstr(S.str()) + ",\"config\":" + jstr(cfg.str()) + ",\"first_steps\":" + jstr(ops) + "}";
}
int main(int argc, char** argv) { return workerMain(argc, argv, "C02", run); }

// C16: misuse is rejected with the documented error and leaves all functions intact.
// A catalogue of misuse classes is applied, in random order, to a small world of held edges in
// several forests and two domains.  After EVERY provoked error: every held edge still evaluates
// to its table, every forest passes the structural audit M1 (reference counts are not asserted
// after an error: C06/C16 do not promise leak-freedom on error paths), and a legitimate
// follow-up operation gives the model result.
#include "audit.h"
#include "opsmodel.h"
using namespace V;

struct Held { forest* f; FSpec fs; World* w; dd_edge e; Table t; };

static int g_followups = 0;

// expect: error with code `want` (or any MEDDLY::error if want < 0)
template <class FN>
static void mustFail(Ctx& c, const std::string& cls, int want, FN fn) {
    phase("misuse:" + cls);
    bool got = false; int code = -1; std::string name;
    try { fn(); }
    catch (MEDDLY::error& e) { got = true; code = int(e.getCode()); name = e.getName(); }
    if (!got) throw Violation("C16:" + cls + ":accepted", "misuse '" + cls + "' did not raise an error");
    if (want >= 0 && code != want) throw Violation("C16:" + cls + ":wrong-error-code", "misuse '" + cls + "' raised " + name + " (code " + tos(code) + "), documented code is " + tos(want));
    c.count("errors_provoked"); c.count("class:" + cls);
}

static void aftermath(Ctx& c, const std::string& cls, std::vector<Held>& H, std::vector<std::pair<forest*, FSpec>>& forests) {
    for (size_t i = 0; i < H.size(); i++) {
        Table got = evalAll(*H[i].w, H[i].e);
        long d = firstDiff(got, H[i].t, tolFor(H[i].fs));
        if (d >= 0) throw Violation("C16:" + cls + ":aftermath:held-edge-changed", "after misuse '" + cls + "': held edge " + tos(i) + " in " + H[i].fs.str() + " changed at " +
                                    pointStr(*H[i].w, H[i].fs.rel, size_t(d)) + " now=" + got[size_t(d)].str() + " before=" + H[i].t[size_t(d)].str());
    }
    AuditOpts ao; ao.refcounts = false; ao.cachecounts = false;
    for (auto& pf : forests) {
        try { auditForest(pf.first, pf.second.kindStr(), c, "C16", ao); }
        catch (Violation& v) { throw Violation("C16:" + cls + ":aftermath:not-canonical:" + v.key.substr(v.key.find(":audit:") + 7), "after misuse '" + cls + "': " + v.detail); }
    }
    // a legitimate follow-up operation in each forest of the first world
    for (size_t i = 0; i + 1 < H.size(); i++) {
        if (H[i].f != H[i + 1].f) continue;
        const FSpec& fs = H[i].fs;
        int op = fs.isBool() ? B_UNION : (fs.isEVP() ? B_MINIMUM : B_MAXIMUM);
        dd_edge res(H[i].f);
        apply(binFactory(op), H[i].e, H[i + 1].e, res);
        BinModel m = modelBin(op, H[i].t, H[i + 1].t, fs.isReal());
        Table got = evalAll(*H[i].w, res);
        long d = firstDiff(got, m.out, tolFor(fs));
        if (d >= 0) throw Violation("C16:" + cls + ":aftermath:follow-up-wrong", "after misuse '" + cls + "': " + binName(op) + " in " + fs.str() + " is wrong at " + pointStr(*H[i].w, fs.rel, size_t(d)));
        g_followups++;
    }
    c.count("aftermath_checks");
}

static void run(Ctx& c) {
    Rng& r = c.rng;
    g_followups = 0;
    MEDDLY::initialize();
    Shape sh1 = randomShape(r, 2, 4, 4, 200), sh2 = randomShape(r, 1, 3, 3, 20);
    if (sh2.sizes == sh1.sizes) sh2.sizes.push_back(2);
    World w1(sh1), w2(sh2);
    // forests over domain 1: int set (2 rules), real set, bool set, bool relation, EV+ set; over domain 2: int set, bool set
    std::vector<std::pair<forest*, FSpec>> forests;
    auto mk = [&](World& w, bool rel, range_type rt, edge_labeling el, reduction_rule rr) { FSpec fs = mkSpec(rel, rt, el, rr); randomPolicy(r, fs); forest* f = makeForest(w.dom, fs); forests.emplace_back(f, fs); return forests.size() - 1; };
    size_t iInt = mk(w1, false, range_type::INTEGER, edge_labeling::MULTI_TERMINAL, r.chance(1, 2) ? reduction_rule::FULLY_REDUCED : reduction_rule::QUASI_REDUCED);
    size_t iInt2 = mk(w1, false, range_type::INTEGER, edge_labeling::MULTI_TERMINAL, reduction_rule::FULLY_REDUCED);
    size_t iReal = mk(w1, false, range_type::REAL, edge_labeling::MULTI_TERMINAL, reduction_rule::FULLY_REDUCED);
    size_t iBool = mk(w1, false, range_type::BOOLEAN, edge_labeling::MULTI_TERMINAL, r.chance(1, 2) ? reduction_rule::FULLY_REDUCED : reduction_rule::QUASI_REDUCED);
    size_t iEvp = mk(w1, false, range_type::INTEGER, edge_labeling::EVPLUS, reduction_rule::FULLY_REDUCED);
    // the relation world must be small: use domain 2 for relations
    size_t iRel2 = mk(w2, true, range_type::BOOLEAN, edge_labeling::MULTI_TERMINAL, reduction_rule::IDENTITY_REDUCED);
    size_t iInt_d2 = mk(w2, false, range_type::INTEGER, edge_labeling::MULTI_TERMINAL, reduction_rule::FULLY_REDUCED);
    size_t iBool_d2 = mk(w2, false, range_type::BOOLEAN, edge_labeling::MULTI_TERMINAL, reduction_rule::FULLY_REDUCED);
    std::vector<Held> H;
    auto hold = [&](size_t fi, World& w) {
        const FSpec& fs = forests[fi].second; std::vector<Val> alpha = alphabet(r, fs, true, true);
        for (auto& v : alpha) if (v.k == Val::I && std::labs(v.i) > 1000) v.i %= 1000;
        Table t = randomTable(r, w, fs, alpha);
        Held h; h.f = forests[fi].first; h.fs = fs; h.w = &w; h.t = t; h.e.attach(h.f);
        buildChecked(w, h.f, fs, t, h.e, "C16");
        H.push_back(h); return H.size() - 1;
    };
    size_t hI1 = hold(iInt, w1), hI2 = hold(iInt, w1), hJ = hold(iInt2, w1), hR = hold(iReal, w1), hB1 = hold(iBool, w1), hB2 = hold(iBool, w1), hE = hold(iEvp, w1), hE2 = hold(iEvp, w1);
    size_t hX = hold(iRel2, w2), hI_d2 = hold(iInt_d2, w2), hB_d2 = hold(iBool_d2, w2), hB_d2b = hold(iBool_d2, w2);
    (void)hI2; (void)hB2; (void)hE2; (void)hB_d2b;
    forest* FI = forests[iInt].first; forest* FB = forests[iBool].first; forest* FR = forests[iReal].first; forest* FE = forests[iEvp].first;
    forest* FI2 = forests[iInt_d2].first; forest* FB2 = forests[iBool_d2].first; forest* FX2 = forests[iRel2].first;

    std::vector<int> order; for (int i = 0; i < 23; i++) order.push_back(i);
    r.shuffle(order);
    int ncls = c.thorough ? 23 : r.range(8, 16);
    std::string done;
    for (int k = 0; k < ncls; k++) {
        std::string cls;
        switch (order[size_t(k)]) {
            case 0: cls = "binary:operands-from-different-domains";
                mustFail(c, cls, int(error::DOMAIN_MISMATCH), [&]() { dd_edge res(FI); apply(PLUS, H[hI1].e, H[hI_d2].e, res); }); break;
            case 1: cls = "binary:result-in-different-domain";
                mustFail(c, cls, int(error::DOMAIN_MISMATCH), [&]() { dd_edge res(FB2); apply(UNION, H[hB1].e, H[hB2].e, res); }); break;
            case 2: cls = "unary:COPY-across-domains";
                mustFail(c, cls, int(error::DOMAIN_MISMATCH), [&]() { dd_edge res(FI2); apply(COPY, H[hI1].e, res); }); break;
            case 3: cls = "binary:set-with-relation";
                mustFail(c, cls, int(error::TYPE_MISMATCH), [&]() { dd_edge res(FB2); apply(UNION, H[hB_d2].e, H[hX].e, res); }); break;
            case 4: cls = "unary:COPY-set-to-relation";
                mustFail(c, cls, int(error::TYPE_MISMATCH), [&]() { dd_edge res(FX2); apply(COPY, H[hB_d2].e, res); }); break;
            case 5: cls = "binary:PLUS-integer-with-real";
                mustFail(c, cls, int(error::TYPE_MISMATCH), [&]() { dd_edge res(FI); apply(PLUS, H[hI1].e, H[hR].e, res); }); break;
            case 6: cls = "binary:PLUS-MT-with-EV+";
                mustFail(c, cls, int(error::TYPE_MISMATCH), [&]() { dd_edge res(FI); apply(PLUS, H[hI1].e, H[hE].e, res); }); break;
            case 7: cls = "createConstant:edge-of-another-forest";
                mustFail(c, cls, int(error::FOREST_MISMATCH), [&]() { dd_edge wrong(FB); FI->createConstant(rangeval(3L), wrong); }); break;
            case 8: cls = "createConstant:value-too-large-for-a-terminal";
                mustFail(c, cls, int(error::VALUE_OVERFLOW), [&]() { dd_edge e(FI); FI->createConstant(rangeval(long(1L << 31)), e); }); break;
            case 9: cls = "minterm:value-too-small-for-a-terminal";
                mustFail(c, cls, int(error::VALUE_OVERFLOW), [&]() { dd_edge e(FI); minterm m(FI); for (int v = 1; v <= sh1.n(); v++) m.setVar(unsigned(v), 0); m.setValue(rangeval(long(-(1L << 31)))); m.buildFunction(rangeval(0L), e); }); break;
            case 10: { cls = "PLUS:result-overflows-terminal-range-deep-in-the-diagram";
                // one point holds the largest terminal; adding 1 there must overflow, after part of the result was built
                Table ta(size_t(w1.N), Val::in(0)), tb(size_t(w1.N), Val::in(0));
                for (long p = 0; p < w1.N; p++) { ta[size_t(p)] = Val::in(1 + p % 3); tb[size_t(p)] = Val::in(1); }
                ta[size_t(w1.N - 1)] = Val::in(1073741823L);
                dd_edge ea(FI), eb(FI); buildFromTable(w1, FI, ta, ea); buildFromTable(w1, FI, tb, eb);
                mustFail(c, cls, int(error::VALUE_OVERFLOW), [&]() { dd_edge res(FI); apply(PLUS, ea, eb, res); }); break; }
            case 11: { cls = "DIVIDE:zero-divisor-deep-in-the-diagram";
                Table ta(size_t(w1.N), Val::in(0)), tb(size_t(w1.N), Val::in(0));
                for (long p = 0; p < w1.N; p++) { ta[size_t(p)] = Val::in(6 + p % 5); tb[size_t(p)] = Val::in(1 + p % 3); }
                tb[size_t(r.below(uint64_t(w1.N)))] = Val::in(0);
                dd_edge ea(FI), eb(FI); buildFromTable(w1, FI, ta, ea); buildFromTable(w1, FI, tb, eb);
                mustFail(c, cls, int(error::DIVIDE_BY_ZERO), [&]() { dd_edge res(FI); apply(DIVIDE, ea, eb, res); });
                mustFail(c, "MODULO:zero-divisor-deep-in-the-diagram", int(error::DIVIDE_BY_ZERO), [&]() { dd_edge res(FI); apply(MODULO, ea, eb, res); }); break; }
            case 12: { cls = "MINUS:infinite-subtrahend-deep-in-the-diagram";
                Table ta(size_t(w1.N), Val::in(0)), tb(size_t(w1.N), Val::in(0));
                for (long p = 0; p < w1.N; p++) { ta[size_t(p)] = Val::in(6 + p % 5); tb[size_t(p)] = Val::in(1 + p % 3); }
                tb[size_t(r.below(uint64_t(w1.N)))] = Val::inf();
                dd_edge ea(FE), eb(FE); buildFromTable(w1, FE, ta, ea); buildFromTable(w1, FE, tb, eb);
                mustFail(c, cls, int(error::SUBTRACT_INFINITY), [&]() { dd_edge res(FE); apply(MINUS, ea, eb, res); }); break; }
            case 13: cls = "iterator:dereference-after-the-end";
                mustFail(c, cls, int(error::INVALID_ITERATOR), [&]() { dd_edge::iterator it = H[hB1].e.begin(); while (it) ++it; const minterm& m = *it; (void)m; }); break;
            case 14: cls = "evaluate:minterm-of-another-domain";
                mustFail(c, cls, int(error::DOMAIN_MISMATCH), [&]() { minterm m(FI2); for (int v = 1; v <= sh2.n(); v++) m.setVar(unsigned(v), 0); rangeval rv; H[hI1].e.evaluate(m, rv); }); break;
            case 15: cls = "evaluate:relation-minterm-on-a-set";
                mustFail(c, cls, int(error::DOMAIN_MISMATCH), [&]() { minterm m(FX2); for (int v = 1; v <= sh2.n(); v++) m.setVars(unsigned(v), 0, 0); rangeval rv; H[hB_d2].e.evaluate(m, rv); }); break;
            case 16: cls = "getElement:not-an-index-set";
                mustFail(c, cls, -1, [&]() { minterm m(FI); H[hI1].e.getElement(0, m); }); break;
            case 17: { cls = "edge-of-a-destroyed-forest:operand";
                FSpec fs = mkSpec(false, range_type::BOOLEAN, edge_labeling::MULTI_TERMINAL, reduction_rule::FULLY_REDUCED); randomPolicy(r, fs);
                forest* tmp = makeForest(w1.dom, fs);
                std::vector<Val> alpha = {Val::b(true)}; Table t = randomTable(r, w1, fs, alpha);
                dd_edge orphan(tmp); buildFromTable(w1, tmp, t, orphan);
                dd_edge cached(FB); apply(UNION, orphan, H[hB1].e, cached);       // cache entries that span the doomed forest and a survivor
                forest::destroy(tmp);
                if (orphan.getForest() != nullptr) throw Violation("C16:" + cls + ":still-attached", "edge still reports a forest after forest::destroy");
                mustFail(c, cls, -1, [&]() { dd_edge res(FB); apply(UNION, orphan, H[hB1].e, res); });
                mustFail(c, "edge-of-a-destroyed-forest:evaluate", -1, [&]() { minterm m(FB); for (int v = 1; v <= sh1.n(); v++) m.setVar(unsigned(v), 0); rangeval rv; orphan.evaluate(m, rv); });
                mustFail(c, "edge-of-a-destroyed-forest:result", -1, [&]() { apply(UNION, H[hB1].e, H[hB2].e, orphan); });
                break; }
            case 18: cls = "CROSS:operands-are-relations";
                mustFail(c, cls, -1, [&]() { dd_edge res(FX2); apply(CROSS, H[hX].e, H[hX].e, res); }); break;
            case 19: cls = "CARDINALITY-like:MAX_RANGE-with-wrong-result-type";
                mustFail(c, cls, int(error::TYPE_MISMATCH), [&]() { double d = 0; apply(MAX_RANGE, H[hI1].e, d); }); break;
            case 20: cls = "createEdgeForVar:variable-out-of-range";
                mustFail(c, cls, -1, [&]() { dd_edge e(FI); FI->createEdgeForVar(sh1.n() + 3, false, e); }); break;
            case 21: { cls = "DIVIDE:EV+:zero-divisor-under-an-infinite-numerator";
                // the divisor is 0 at exactly one point, where the numerator is +infinity; the other points of that bottom row are finite,
                // so the division reaches the terminals there: inf/0 is a division by zero like any other
                if (sh1.sizes[1] < 2) { cls += "(skipped: bottom variable has one value)"; break; }
                Table ta(size_t(w1.N), Val::in(0)), tb(size_t(w1.N), Val::in(0));
                for (long p = 0; p < w1.N; p++) { ta[size_t(p)] = Val::in(6 + p % 5); tb[size_t(p)] = Val::in(1 + p % 3); }
                size_t p0 = size_t(r.below(uint64_t(w1.N)));
                ta[p0] = Val::inf(); tb[p0] = Val::in(0);
                dd_edge ea(FE), eb(FE); buildFromTable(w1, FE, ta, ea); buildFromTable(w1, FE, tb, eb);
                mustFail(c, cls, int(error::DIVIDE_BY_ZERO), [&]() { dd_edge res(FE); apply(DIVIDE, ea, eb, res); }); break; }
            default: cls = "CONVERT_TO_INDEX_SET:result-not-an-index-set";
                mustFail(c, cls, -1, [&]() { dd_edge res(FE); apply(CONVERT_TO_INDEX_SET, H[hB1].e, res); }); break;
        }
        aftermath(c, cls, H, forests);
        if (done.size() < 400) done += cls + "; ";
    }
    (void)hJ;
    c.count("followup_operations", g_followups);
    c.nontrivial = true;
    uint64_t sig = hashstr(sh1.str().c_str()) ^ hashstr(sh2.str().c_str()); for (int k = 0; k < ncls; k++) sig = sig * 31 + uint64_t(order[size_t(k)]); for (auto& h : H) sig = sig * 1000003ULL ^ tableHash(h.t);
    c.sig = tos(sig);
    c.sample = "{\"domains\":" + jstr(sh1.str() + " and " + sh2.str()) + ",\"misuse_sequence\":" + jstr(done) + "}";
    H.clear();
    MEDDLY::cleanup();
}

int main(int argc, char** argv) { return workerMain(argc, argv, "C16", run); }

// C19: values survive encoding into terminals and edge values.
//   cases   0..255 : integer terminals, chunk c covers [-2^30 + c*2^23, -2^30 + (c+1)*2^23)
//   cases 256..767 : float bit patterns, chunk c covers [c*2^23, (c+1)*2^23)
//   case  768      : booleans, out-of-range integers, forest-level conversions, EV+/EV* constants,
//                    edge_value and rangeval round trips
// thorough tier: every value of every chunk (exhaustive); quick tier: the first and last 64 values
// of every chunk plus a random-offset stride of 128 through it.
#include "vcommon.h"
#include <climits>
using namespace V;

static const long IMIN = -1073741824L, IMAX = 1073741823L;

static inline void checkInt(long v, Ctx& c) {
    terminal t(v);
    node_handle h = t.getHandle();
    terminal back(terminal_type::INTEGER, h);
    long r = back.getInteger();
    if (r != v) throw Violation("C19:int:round-trip", "integer " + tos(v) + " -> handle " + tos(h) + " -> " + tos(r));
    if ((h == 0) != (v == 0)) throw Violation("C19:int:zero-handle", "integer " + tos(v) + " has handle " + tos(h));
    if (h > 0) throw Violation("C19:int:positive-handle", "integer " + tos(v) + " has non-terminal handle " + tos(h));
}

static inline void checkFloatBits(uint32_t b, Ctx& c) {
    if ((b & 0x7f800000u) == 0x7f800000u && (b & 0x007fffffu)) return;   // NaN
    float x; memcpy(&x, &b, 4);
    terminal t(x);
    node_handle h = t.getHandle();
    terminal back(terminal_type::REAL, h);
    float y = float(back.getReal());
    uint32_t eb = b & ~1u; float expect; memcpy(&expect, &eb, 4);
    uint32_t yb; memcpy(&yb, &y, 4);
    const bool zero = (b & 0x7ffffffeu) == 0;    // +-0 once the low fraction bit is dropped
    if (zero) {
        if (h != 0) throw Violation("C19:real:zero-handle", "float bits " + tos(b) + " (rounds to +-0) has non-zero handle " + tos(h));
        if (y != 0.0f) throw Violation("C19:real:round-trip", "float bits " + tos(b) + " decodes to " + tos(y));
    } else {
        if (h == 0) throw Violation("C19:real:zero-handle", "non-zero float bits " + tos(b) + " encoded as the zero handle");
        if (h > 0) throw Violation("C19:real:positive-handle", "float bits " + tos(b) + " has non-terminal handle " + tos(h));
        if (yb != eb) throw Violation("C19:real:round-trip", "float bits " + tos(b) + " -> handle " + tos(h) + " -> bits " + tos(yb) + ", expected " + tos(eb));
    }
}

static void expectOverflow(long v) {
    bool ok = false;
    try { terminal t(v); node_handle h = t.getHandle(); (void)h; }
    catch (MEDDLY::error& e) { ok = (e.getCode() == error::VALUE_OVERFLOW); if (!ok) throw Violation("C19:int:wrong-error", "integer " + tos(v) + " raised " + e.getName()); }
    if (!ok) throw Violation("C19:int:overflow-accepted", "integer " + tos(v) + " outside the terminal range was encoded without VALUE_OVERFLOW");
}

static void misc(Ctx& c) {
    Rng& r = c.rng;
    // booleans
    {
        terminal tt(true), tf(false);
        if (tf.getHandle() != 0) throw Violation("C19:bool:zero-handle", "false has handle " + tos(tf.getHandle()));
        if (tt.getHandle() == 0 || tt.getHandle() > 0) throw Violation("C19:bool:true-handle", "true has handle " + tos(tt.getHandle()));
        if (!terminal(terminal_type::BOOLEAN, tt.getHandle()).getBoolean() || terminal(terminal_type::BOOLEAN, 0).getBoolean())
            throw Violation("C19:bool:round-trip", "boolean round trip failed");
        c.count("booleans", 2);
    }
    // integers outside the range
    long outs[] = {IMIN - 1, IMAX + 1, IMIN - 2, IMAX + 2, 2147483647L, -2147483648L, 2147483648L, -2147483649L, 4294967296L, LONG_MAX, LONG_MIN, LONG_MAX / 2, (1L << 40) + 3};
    for (long v : outs) { expectOverflow(v); c.count("overflow_values"); }
    checkInt(IMIN, c); checkInt(IMAX, c); checkInt(0, c); checkInt(-1, c); checkInt(1, c);

    // forest-level conversions and constants
    MEDDLY::initialize();
    Shape sh; sh.sizes = {0, 2, 3};
    World w(sh);
    std::vector<long> ivals = {IMIN, IMIN + 1, -65536, -2, -1, 0, 1, 2, 255, 65536, IMAX - 1, IMAX};
    for (int i = 0; i < 200; i++) ivals.push_back(long(r.below(uint64_t(IMAX - IMIN) + 1)) + IMIN);
    std::vector<float> fvals = {0.0f, -0.0f, 1.0f, -1.0f, 0.5f, 3.25f, 1e-20f, -1e-20f, 1e20f, -1e20f, 1.17549435e-38f, 3.4028235e38f, -3.4028235e38f, 1e-45f, 0.1f, 1.0f / 3.0f};
    for (int i = 0; i < 200; i++) { uint32_t b = uint32_t(r.next()); if ((b & 0x7f800000u) == 0x7f800000u) b &= 0x3fffffffu; float x; memcpy(&x, &b, 4); fvals.push_back(x); }
    for (int relf = 0; relf < 2; relf++) for (int rule = 0; rule < 2; rule++) {
        FSpec fi = mkSpec(relf, range_type::INTEGER, edge_labeling::MULTI_TERMINAL, rule ? reduction_rule::QUASI_REDUCED : reduction_rule::FULLY_REDUCED);
        FSpec fr = mkSpec(relf, range_type::REAL, edge_labeling::MULTI_TERMINAL, rule ? reduction_rule::QUASI_REDUCED : reduction_rule::FULLY_REDUCED);
        FSpec fb = mkSpec(relf, range_type::BOOLEAN, edge_labeling::MULTI_TERMINAL, rule ? reduction_rule::QUASI_REDUCED : reduction_rule::FULLY_REDUCED);
        FSpec fe = mkSpec(relf, range_type::INTEGER, edge_labeling::EVPLUS, rule ? reduction_rule::QUASI_REDUCED : reduction_rule::FULLY_REDUCED);
        forest* FI = makeForest(w.dom, fi); forest* FR = makeForest(w.dom, fr); forest* FB = makeForest(w.dom, fb); forest* FE = makeForest(w.dom, fe);
        FR->setTerminalPrecision(0);   // no rounding: the encoding itself is under test
        for (long v : ivals) {
            node_handle h = FI->handleForValue(v);
            long back; FI->getValueFromHandle(h, back);
            if (back != v) throw Violation("C19:forest-int:round-trip", "forest handleForValue(" + tos(v) + ") -> " + tos(h) + " -> " + tos(back));
            dd_edge e(FI); FI->createConstant(rangeval(v), e);
            Table t = evalAll(w, e);
            for (auto& x : t) if (!(x.k == Val::I && x.i == v)) throw Violation("C19:forest-int:constant", "createConstant(" + tos(v) + ") evaluates to " + x.str() + " in " + fi.kindStr());
            if ((e.getNode() == 0) != (v == 0) && !rule) throw Violation("C19:forest-int:zero-handle", "constant " + tos(v) + " has root " + tos(e.getNode()));
            c.count("forest_int_values");
        }
        // integers outside the terminal range are rejected on every route into the forest (constant, minterm value, default value),
        // including those whose low 32 bits look like a legal terminal
        {
            std::vector<long> big = {IMAX + 1, IMIN - 1, 2147483647L, -2147483648L, 2147483648L, 4294967296L, 4294967296L + 5, 4294967296L - 7, 3221225472L, -3221225472L,
                                     (1L << 33) + 1000, -(1L << 33) - 1000, (1L << 40) + 3, LONG_MAX, LONG_MIN, LONG_MAX / 2, (1L << 62) + 12345};
            for (int i = 0; i < 40; i++) { long hi = long(r.below(1UL << 28)) + 1; long lo = long(r.below(uint64_t(IMAX - IMIN) + 1)) + IMIN; big.push_back((r.chance(1, 2) ? 1 : -1) * (hi << 32) + lo); }
            for (long v : big) {
                if (v >= IMIN && v <= IMAX) continue;
                for (int route = 0; route < 3; route++) {
                    bool ok = false; dd_edge e(FI);
                    try {
                        if (route == 0) FI->createConstant(rangeval(v), e);
                        else { minterm m(FI); if (relf) setMintermRel(FI, sh, m, 0, 0); else setMintermSet(FI, sh, m, 0);
                               if (route == 1) { m.setValue(rangeval(v)); m.buildFunction(rangeval(0L), e); } else { m.setValue(rangeval(1L)); m.buildFunction(rangeval(v), e); } }
                    } catch (MEDDLY::error& er) { ok = er.getCode() == error::VALUE_OVERFLOW; if (!ok) throw Violation("C19:forest-int:wrong-error", "value " + tos(v) + " raised " + er.getName() + " in " + fi.kindStr()); }
                    if (!ok) { Table t = evalAll(w, e); throw Violation("C19:forest-int:overflow-accepted", std::string(route == 0 ? "createConstant" : route == 1 ? "minterm value" : "default value") + " " + tos(v) + " is outside the terminal range but was accepted in " + fi.kindStr() + " (evaluates to " + t[0].str() + ")"); }
                    c.count("forest_int_overflow_rejections");
                }
            }
        }
        for (float x : fvals) {
            node_handle h = FR->handleForValue(x);
            float back; FR->getValueFromHandle(h, back);
            uint32_t b; memcpy(&b, &x, 4); uint32_t eb = b & ~1u; float ex; memcpy(&ex, &eb, 4);
            if (!(back == ex)) throw Violation("C19:forest-real:round-trip", "forest handleForValue(" + tos(x) + ") -> " + tos(h) + " -> " + tos(back));
            dd_edge e(FR); FR->createConstant(rangeval(double(x)), e);
            Table t = evalAll(w, e);
            for (auto& y : t) if (!(y.k == Val::R && float(y.r) == ex)) throw Violation("C19:forest-real:constant", "createConstant(" + tos(x) + ") evaluates to " + y.str() + " in " + fr.kindStr());
            c.count("forest_real_values");
        }
        {
            dd_edge z(FR); FR->createConstant(rangeval(0.0), z);
            double uf[] = {1e-60, -1e-60, 1e-46, -1e-46, 4.9e-324, -0.0};
            for (double x : uf) {
                dd_edge e(FR); FR->createConstant(rangeval(x), e);
                if (e != z) throw Violation("C19:forest-real:zero-not-unique", "MT real constant " + tos(x) + " (0 in single precision) is not the edge of the constant 0 in " + fr.kindStr());
                c.count("forest_real_underflow_values");
            }
        }
        for (int bv = 0; bv < 2; bv++) {
            dd_edge e(FB); FB->createConstant(rangeval(bool(bv)), e);
            Table t = evalAll(w, e);
            for (auto& y : t) if (!(y.k == Val::B && y.i == bv)) throw Violation("C19:forest-bool:constant", "createConstant(bool) evaluates wrongly");
        }
        // EV+ : +infinity and large finite values (edge values are long)
        {
            dd_edge e(FE); FE->createConstant(rangeval(range_special::PLUS_INFINITY, range_type::INTEGER), e);
            Table t = evalAll(w, e);
            for (auto& y : t) if (!y.isInf()) throw Violation("C19:evplus:infinity", "EV+ constant +infinity evaluates to " + y.str() + " in " + fe.kindStr());
            if (e.getNode() != 0 && !rule) throw Violation("C19:evplus:infinity-handle", "EV+ +infinity is not the transparent edge");
            std::vector<long> evs = {0, 1, -1, IMAX, IMIN, (1L << 31), -(1L << 31), (1L << 40) + 7, -(1L << 40) - 7, (1L << 62), -(1L << 62)};
            for (long v : evs) {
                dd_edge e2(FE); FE->createConstant(rangeval(v), e2);
                Table t2 = evalAll(w, e2);
                for (auto& y : t2) if (!(y.k == Val::I && y.i == v)) throw Violation("C19:evplus:constant", "EV+ constant " + tos(v) + " evaluates to " + y.str());
                c.count("evplus_values");
            }
        }
        if (relf) {
            FSpec ft = mkSpec(true, range_type::REAL, edge_labeling::EVTIMES, rule ? reduction_rule::QUASI_REDUCED : reduction_rule::FULLY_REDUCED);
            forest* FT = makeForest(w.dom, ft);
            // zero is the unique transparent edge: doubles that underflow to 0 in single precision are the value 0
            {
                dd_edge z(FT); FT->createConstant(rangeval(0.0), z);
                double uf[] = {1e-60, -1e-60, 1e-46, -1e-46, 4.9e-324, -0.0};
                for (double x : uf) {
                    dd_edge e(FT); FT->createConstant(rangeval(x), e);
                    Table t = evalAll(w, e);
                    for (auto& y : t) if (!(y.k == Val::R && y.r == 0)) throw Violation("C19:evtimes:underflow-constant", "EV* constant " + tos(x) + " (0 in single precision) evaluates to " + y.str());
                    if (e != z) throw Violation("C19:evtimes:zero-not-unique", "EV* constant " + tos(x) + " (0 in single precision) is not the edge of the constant 0: a second representation of zero");
                    c.count("evtimes_underflow_values");
                }
            }
            float tv[] = {0.0f, 1.0f, -1.0f, 0.5f, 3.25f, 1e-20f, 1e20f, -7.125f};
            for (float x : tv) {
                dd_edge e(FT); FT->createConstant(rangeval(double(x)), e);
                Table t = evalAll(w, e);
                for (auto& y : t) if (!(y.k == Val::R && float(y.r) == x)) throw Violation("C19:evtimes:constant", "EV* constant " + tos(x) + " evaluates to " + y.str());
                c.count("evtimes_values");
            }
        }
    }
    MEDDLY::cleanup();
    // edge_value round trips
    {
        long lv[] = {0, 1, -1, LONG_MAX, LONG_MIN, (1L << 40) + 7};
        for (long v : lv) { edge_value e(v); if (!e.isLong() || long(e) != v) throw Violation("C19:edge_value:long", "edge_value(long " + tos(v) + ")"); edge_value f; f.set(v); if (!(e == f)) throw Violation("C19:edge_value:equality", "equal long edge values compare unequal"); }
        int iv[] = {0, 1, -1, INT_MAX, INT_MIN};
        for (int v : iv) { edge_value e(v); if (!e.isInt() || int(e) != v) throw Violation("C19:edge_value:int", "edge_value(int " + tos(v) + ")"); }
        float fv[] = {0.0f, 1.0f, -2.5f, 1e-30f, 3.4e38f};
        for (float v : fv) { edge_value e(v); if (!e.isFloat() || float(e) != v) throw Violation("C19:edge_value:float", "edge_value(float)"); }
        double dv[] = {0.0, 1.0, -2.5, 1e-300, 1.7e308};
        for (double v : dv) { edge_value e(v); if (!e.isDouble() || double(e) != v) throw Violation("C19:edge_value:double", "edge_value(double)"); }
        edge_value a(5L), b(6L);
        if (a == b) throw Violation("C19:edge_value:equality", "different long edge values compare equal");
        c.count("edge_value_checks", 22);
    }
    // rangeval
    {
        rangeval i(7L), d(2.5), b(true), inf(range_special::PLUS_INFINITY, range_type::INTEGER);
        if (!(i.isInteger() && long(i) == 7 && d.isReal() && double(d) == 2.5 && b.isBoolean() && bool(b) && inf.isPlusInfinity() && !i.isPlusInfinity()))
            throw Violation("C19:rangeval", "rangeval round trip failed");
        c.count("rangeval_checks", 4);
    }
    c.nontrivial = true; c.sig = "misc";
    c.sample = "{\"misc\":\"booleans, 13 out-of-range integers, forest handleForValue/getValueFromHandle/createConstant+evaluate on boundary and random values, EV+ infinity and 64-bit edge values, EV* constants, edge_value and rangeval round trips\"}";
}

static void run(Ctx& c) {
    const long CH = 1L << 23;
    if (c.idx < 256) {
        long lo = IMIN + c.idx * CH, hi = lo + CH;   // [lo, hi)
        long n = 0;
        if (c.thorough) { for (long v = lo; v < hi; v++) checkInt(v, c); n = CH; }
        else {
            for (long k = 0; k < 64; k++) { checkInt(lo + k, c); checkInt(hi - 1 - k, c); }
            long off = long(c.rng.below(128));
            for (long v = lo + off; v < hi; v += 128) { checkInt(v, c); n++; }
            n += 128;
        }
        c.count("integer_values", n);
        c.nontrivial = true; c.sig = "int-" + tos(c.idx);
        c.sample = "{\"integers\":\"[" + tos(lo) + "," + tos(hi) + ")\",\"checked\":" + tos(n) + "}";
    } else if (c.idx < 768) {
        uint64_t lo = uint64_t(c.idx - 256) * uint64_t(CH), hi = lo + uint64_t(CH);
        long n = 0;
        if (c.thorough) { for (uint64_t b = lo; b < hi; b++) checkFloatBits(uint32_t(b), c); n = CH; }
        else {
            for (uint64_t k = 0; k < 64; k++) { checkFloatBits(uint32_t(lo + k), c); checkFloatBits(uint32_t(hi - 1 - k), c); }
            uint64_t off = c.rng.below(128);
            for (uint64_t b = lo + off; b < hi; b += 128) { checkFloatBits(uint32_t(b), c); n++; }
            n += 128;
        }
        c.count("float_patterns", n);
        c.nontrivial = true; c.sig = "flt-" + tos(c.idx);
        c.sample = "{\"float_bit_patterns\":\"[" + tos(lo) + "," + tos(hi) + ")\",\"checked\":" + tos(n) + "}";
    } else {
        misc(c);
    }
}

int main(int argc, char** argv) { return workerMain(argc, argv, "C19", run); }

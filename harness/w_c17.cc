// C17: library, domain and forest lifecycles are safe in any order.
// Random legal orders of initialize / cleanup / create+destroy domain, forest, edge, iterator /
// build+run operations, with compute tables populated by operations that span the object about to
// die and survivors.  Oracles: ASan silence; edges of a destroyed forest/domain report no forest and
// raise an error when used; surviving forests pass M1-M3 and still compute model results; forest
// identifiers handed out within one initialisation are pairwise distinct; re-initialisation works.
#include "audit.h"
#include "opsmodel.h"
#include <memory>
using namespace V;

struct Dom { std::unique_ptr<World> w; bool alive = true; int id; };
struct For { forest* f = nullptr; FSpec fs; int dom; bool alive = true; unsigned fid = 0; };
struct Edg { std::unique_ptr<dd_edge> e; int forest; Table t; };
struct Itr { std::unique_ptr<dd_edge::iterator> it; int forest; };

struct OpRec { const operation* ptr; unsigned id; std::vector<int> forests; std::string what; };
struct State {
    std::vector<Dom> D; std::vector<For> F; std::vector<Edg> E; std::vector<Itr> I;
    std::set<unsigned> fids;
    std::vector<OpRec> ops;     // operation objects the harness has seen built, with the forests they span
};

// "destroys the operations ... that mention it": after forest fi died, no operation object that spanned it may still sit in the
// library's operation registry (public: operation::getOpListSize / getOpWithID).  Called before anything new is built.
static void checkOpsGone(Ctx& c, State& S, const std::vector<int>& dead, const char* when) {
    for (size_t k = 0; k < S.ops.size();) {
        bool hit = false; for (int fi : S.ops[k].forests) for (int d : dead) if (fi == d) hit = true;
        if (!hit) { k++; continue; }
        const operation* now = S.ops[k].id < operation::getOpListSize() ? operation::getOpWithID(S.ops[k].id) : nullptr;
        if (now && now == S.ops[k].ptr)
            throw Violation("C17:operation-survived-its-forest", std::string(when) + ": operation " + S.ops[k].what + " (id " + tos(S.ops[k].id) + ") is still registered although a forest it spans was destroyed");
        c.count("operations_checked_gone");
        S.ops[k] = S.ops.back(); S.ops.pop_back();
    }
}
static void noteOp(State& S, const operation* op, std::vector<int> forests, const std::string& what) {
    if (!op) return;
    for (auto& o : S.ops) if (o.ptr == op && o.id == op->getID()) return;
    S.ops.push_back({op, op->getID(), forests, what});
}

static void checkEdge(Ctx& c, State& S, Edg& x, const char* when) {
    For& fo = S.F[size_t(x.forest)];
    bool alive = fo.alive && S.D[size_t(fo.dom)].alive;
    forest* f = x.e->getForest();
    if (!alive) {
        if (f != nullptr) throw Violation("C17:orphan-edge-still-attached", std::string(when) + ": edge of a destroyed forest still reports a forest");
        c.count("orphan_edges_checked");
        return;
    }
    if (f != fo.f) throw Violation("C17:edge-lost-its-forest", std::string(when) + ": edge of a live forest reports another forest");
    expectTable(*S.D[size_t(fo.dom)].w, *x.e, x.t, tolFor(fo.fs), "C17:surviving-edge-changed:" + fo.fs.kindStr(), when);
}

static void checkAll(Ctx& c, State& S, const char* when, bool refcounts = true) {
    for (auto& x : S.E) checkEdge(c, S, x, when);
    AuditOpts ao; ao.refcounts = refcounts;
    for (auto& fo : S.F) if (fo.alive && S.D[size_t(fo.dom)].alive) {
        // iterators hold unpacked nodes but no counted references; edges held are registered
        try { auditForest(fo.f, fo.fs.kindStr(), c, "C17", ao); }
        catch (Violation& v) { throw Violation(v.key, std::string(when) + ": " + v.detail + " [" + fo.fs.str() + "]"); }
    }
    c.count("survivor_checks");
}

static void run(Ctx& c) {
    Rng& r = c.rng;
    int cycles = r.range(2, 4);
    uint64_t sig = 0; std::string trace;
    long orphanUses = 0;
    for (int cyc = 0; cyc < cycles; cyc++) {
        phase("initialize");
        MEDDLY::initialize();
        c.count("initializations");
        State S;
        int nsteps = r.range(15, c.thorough ? 90 : 45);
        for (int step = 0; step < nsteps; step++) {
            int act = int(r.below(100));
            std::vector<int> liveD, liveF;
            for (size_t i = 0; i < S.D.size(); i++) if (S.D[i].alive) liveD.push_back(int(i));
            for (size_t i = 0; i < S.F.size(); i++) if (S.F[i].alive && S.D[size_t(S.F[i].dom)].alive) liveF.push_back(int(i));
            if (liveD.empty() || (act < 8 && S.D.size() < 4)) {                      // create domain
                phase("create-domain");
                Dom d; d.w.reset(new World(randomShape(r, 1, 4, 4, 120))); d.id = int(S.D.size()); S.D.push_back(std::move(d)); trace += "D+ "; continue;
            }
            if (liveF.size() < 2 || act < 22) {                                       // create forest
                phase("create-forest");
                int di = liveD[r.below(liveD.size())];
                std::vector<FSpec> kinds = allKinds(false);
                FSpec fs = r.chance(3, 4) ? kinds[r.below(kinds.size())] : mkSpec(false, range_type::BOOLEAN, edge_labeling::MULTI_TERMINAL, reduction_rule::FULLY_REDUCED);
                if (r.chance(1, 3)) fs = mkSpec(false, range_type::BOOLEAN, edge_labeling::MULTI_TERMINAL, r.chance(1, 2) ? reduction_rule::FULLY_REDUCED : reduction_rule::QUASI_REDUCED);   // many boolean forests: operations across forests
                randomPolicy(r, fs);
                For fo; fo.fs = fs; fo.dom = di; fo.f = makeForest(S.D[size_t(di)].w->dom, fs); fo.fid = fo.f->FID();
                if (!S.fids.insert(fo.fid).second) throw Violation("C17:forest-id-reused", "forest identifier " + tos(fo.fid) + " handed out twice within one initialisation");
                if (forest::getForestWithID(fo.fid) != fo.f) throw Violation("C17:forest-id-lookup", "getForestWithID does not return the new forest");
                S.F.push_back(fo); trace += "F+ "; c.count("forests_created"); continue;
            }
            if (act < 42) {                                                           // build an edge
                phase("build-edge");
                int fi = liveF[r.below(liveF.size())]; For& fo = S.F[size_t(fi)]; World& w = *S.D[size_t(fo.dom)].w;
                std::vector<Val> alpha = alphabet(r, fo.fs, true, true);
                Edg x; x.forest = fi; x.t = randomTable(r, w, fo.fs, alpha); x.e.reset(new dd_edge(fo.f));
                buildChecked(w, fo.f, fo.fs, x.t, *x.e, "C17");
                S.E.push_back(std::move(x)); trace += "E+ "; continue;
            }
            if (act < 50 && !S.E.empty()) {                                           // copy an edge (also orphans)
                phase("copy-edge");
                Edg& src = S.E[r.below(S.E.size())];
                Edg x; x.forest = src.forest; x.t = src.t; x.e.reset(new dd_edge(*src.e));
                S.E.push_back(std::move(x)); trace += "Ec "; continue;
            }
            if (act < 60 && !S.E.empty()) {                                           // destroy an edge (also orphans)
                phase("destroy-edge");
                size_t k = r.below(S.E.size()); S.E[k] = std::move(S.E.back()); S.E.pop_back(); trace += "E- "; continue;
            }
            if (act < 74) {                                                           // operation across two forests of one domain
                phase("operation");
                // two live edges with boolean forests over the same domain, result into a third (or the same) forest
                std::vector<size_t> cand; for (size_t i = 0; i < S.E.size(); i++) { For& fo = S.F[size_t(S.E[i].forest)]; if (fo.alive && S.D[size_t(fo.dom)].alive) cand.push_back(i); }
                if (cand.size() < 2) continue;
                size_t a = cand[r.below(cand.size())], b = cand[r.below(cand.size())];
                For& fa = S.F[size_t(S.E[a].forest)]; For& fb = S.F[size_t(S.E[b].forest)];
                if (fa.dom != fb.dom) {
                    // operands from different domains must be rejected
                    bool ok = false; try { dd_edge res(fa.f); apply(fa.fs.isBool() && fb.fs.isBool() ? UNION() : PLUS(), *S.E[a].e, *S.E[b].e, res); } catch (MEDDLY::error&) { ok = true; }
                    if (!ok) throw Violation("C17:cross-domain-operation-accepted", "operation on edges of two different domains did not raise an error");
                    c.count("cross_domain_rejections"); continue;
                }
                if (fa.fs.kindStr().substr(0, fa.fs.kindStr().rfind('/')) != fb.fs.kindStr().substr(0, fb.fs.kindStr().rfind('/'))) {
                    // different value kinds: copy a into b's forest instead (COPY spans both forests)
                    if (fa.fs.isEVP() && !fb.fs.isEVP()) continue;   // EV+ infinity into MT is unspecified
                    Edg x; x.forest = S.E[b].forest; x.e.reset(new dd_edge(fb.f));
                    noteOp(S, COPY().build(fa.f, fb.f), {S.E[a].forest, S.E[b].forest}, "COPY " + fa.fs.kindStr() + "->" + fb.fs.kindStr());
                    apply(COPY, *S.E[a].e, *x.e);
                    x.t.resize(S.E[a].t.size());
                    for (size_t i = 0; i < x.t.size(); i++) { const Val& v = S.E[a].t[i]; x.t[i] = v.isInf() ? v : (fb.fs.isBool() ? Val::b(v.truthy()) : fb.fs.isInt() ? Val::in(v.k == Val::R ? long(v.r) : v.i) : Val::re(v.k == Val::R ? v.r : double(v.i))); }
                    if (fa.fs.isReal() && fb.fs.isInt()) continue;   // truncation at representation boundaries: covered by C10
                    expectTable(*S.D[size_t(fb.dom)].w, *x.e, x.t, tolFor(fb.fs), "C17:copy-wrong-value", "COPY " + fa.fs.kindStr() + " -> " + fb.fs.kindStr());
                    S.E.push_back(std::move(x)); c.count("operations_spanning_two_forests"); trace += "Cp "; continue;
                }
                int op = fa.fs.isBool() ? (r.chance(1, 2) ? B_UNION : B_INTERSECTION) : (fa.fs.isEVP() ? B_MINIMUM : B_MAXIMUM);
                // result forest: any live forest of the same kind over this domain
                std::vector<int> rf; for (int fi : liveF) { For& fo = S.F[size_t(fi)]; if (fo.dom == fa.dom && fo.fs.kindStr().substr(0, fo.fs.kindStr().rfind('/')) == fa.fs.kindStr().substr(0, fa.fs.kindStr().rfind('/'))) rf.push_back(fi); }
                int fc = rf[r.below(rf.size())]; For& fo = S.F[size_t(fc)];
                Edg x; x.forest = fc; x.e.reset(new dd_edge(fo.f));
                noteOp(S, binFactory(op).build(fa.f, fb.f, fo.f), {S.E[a].forest, S.E[b].forest, fc}, std::string(binName(op)) + " " + fa.fs.kindStr() + "," + fb.fs.kindStr() + "->" + fo.fs.kindStr());
                apply(binFactory(op), *S.E[a].e, *S.E[b].e, *x.e);
                x.t = modelBin(op, S.E[a].t, S.E[b].t, fa.fs.isReal()).out;
                expectTable(*S.D[size_t(fo.dom)].w, *x.e, x.t, tolFor(fo.fs), "C17:operation-wrong-value:" + fo.fs.kindStr(), std::string(binName(op)) + " across forests");
                if (S.E[a].forest != fc || S.E[b].forest != fc) c.count("operations_spanning_two_forests");
                S.E.push_back(std::move(x)); trace += "Op "; continue;
            }
            if (act < 79 && !S.E.empty()) {                                           // iterator on a live edge
                phase("create-iterator");
                std::vector<size_t> cand; for (size_t i = 0; i < S.E.size(); i++) { For& fo = S.F[size_t(S.E[i].forest)]; if (fo.alive && S.D[size_t(fo.dom)].alive) cand.push_back(i); }
                if (cand.empty()) continue;
                size_t a = cand[r.below(cand.size())];
                Itr it; it.forest = S.E[a].forest; it.it.reset(new dd_edge::iterator(S.E[a].e->begin()));
                int adv = r.range(0, 3); for (int k = 0; k < adv && *it.it; k++) ++(*it.it);
                S.I.push_back(std::move(it)); c.count("iterators_created"); trace += "I+ "; continue;
            }
            if (act < 83 && !S.I.empty()) {                                           // destroy an iterator
                phase("destroy-iterator");
                size_t k = r.below(S.I.size()); S.I[k] = std::move(S.I.back()); S.I.pop_back(); trace += "I- "; continue;
            }
            if (act < 93 && liveF.size() > 1) {                                       // destroy a forest
                int fi = liveF[r.below(liveF.size())]; For& fo = S.F[size_t(fi)];
                // iterators over the doomed forest are destroyed first (an iterator does not outlive its forest)
                for (size_t k = 0; k < S.I.size();) { if (S.I[k].forest == fi) { S.I[k] = std::move(S.I.back()); S.I.pop_back(); } else k++; }
                phase("destroy-forest:" + fo.fs.kindStr());
                forest::destroy(fo.f);
                fo.alive = false; c.count("forests_destroyed"); trace += "F- ";
                if (forest::getForestWithID(fo.fid) != nullptr) throw Violation("C17:destroyed-forest-still-registered", "getForestWithID still returns a destroyed forest");
                checkOpsGone(c, S, {fi}, "after destroying a forest");
                checkAll(c, S, "after destroying a forest");
                // "such edges become inert": an orphan attached to a surviving forest is a fresh edge there (the constant default),
                // and releasing it again takes nothing from that forest
                for (auto& x : S.E) if (x.forest == fi && r.chance(1, 2)) {
                    std::vector<int> lf; for (int q : liveF) if (q != fi) lf.push_back(q);
                    if (lf.empty()) break;
                    int ti = lf[r.below(lf.size())]; For& tgt = S.F[size_t(ti)];
                    phase("reattach-orphan-edge");
                    x.e->attach(tgt.f);
                    if (x.e->getForest() != tgt.f) throw Violation("C17:orphan-reattach:not-attached", "attach() of an orphaned edge to a live forest did not attach it");
                    if (x.e->getNode() != 0) throw Violation("C17:orphan-reattach:keeps-old-node", "an edge orphaned by forest::destroy, attached to another forest (" + tgt.fs.kindStr() + "), still carries node handle " + tos(x.e->getNode()) + " of the dead forest");
                    try { auditForest(tgt.f, tgt.fs.kindStr(), c, "C17"); }
                    catch (Violation& v) { throw Violation(v.key, "while an orphaned edge is attached to a surviving forest: " + v.detail + " [" + tgt.fs.str() + "]"); }
                    x.e->attach(nullptr);   // and let it go again: nothing may be taken from the surviving forest
                    c.count("orphans_reattached");
                    checkAll(c, S, "after re-attaching an orphaned edge");
                    break;
                }
                // using an orphan in an operation must raise an error, not touch freed memory
                for (auto& x : S.E) if (x.forest == fi) {
                    phase("use-orphan-edge");
                    bool ok = false;
                    std::vector<int> lf; for (int q : liveF) if (q != fi && S.F[size_t(q)].dom == fo.dom) lf.push_back(q);
                    if (lf.empty()) break;
                    For& tgt = S.F[size_t(lf[r.below(lf.size())])];
                    try { dd_edge res(tgt.f); apply(COPY, *x.e, res); } catch (MEDDLY::error&) { ok = true; }
                    if (!ok) throw Violation("C17:orphan-edge-accepted", "COPY of an edge whose forest was destroyed did not raise an error");
                    orphanUses++; c.count("orphan_edge_uses_rejected"); break;
                }
                continue;
            }
            if (act < 97 && liveD.size() > 1) {                                       // destroy a domain (and its forests)
                int di = liveD[r.below(liveD.size())];
                for (size_t k = 0; k < S.I.size();) { if (S.F[size_t(S.I[k].forest)].dom == di) { S.I[k] = std::move(S.I.back()); S.I.pop_back(); } else k++; }
                phase("destroy-domain");
                domain* dp = S.D[size_t(di)].w->dom;
                domain::destroy(dp);
                S.D[size_t(di)].alive = false; S.D[size_t(di)].w->dom = nullptr;
                for (auto& fo : S.F) if (fo.dom == di && fo.alive) { fo.alive = false; if (forest::getForestWithID(fo.fid) != nullptr) throw Violation("C17:forest-survived-its-domain", "forest still registered after its domain was destroyed"); }
                c.count("domains_destroyed"); trace += "D- ";
                { std::vector<int> dead; for (size_t q = 0; q < S.F.size(); q++) if (S.F[q].dom == di) dead.push_back(int(q)); checkOpsGone(c, S, dead, "after destroying a domain"); }
                checkAll(c, S, "after destroying a domain");
                continue;
            }
            checkAll(c, S, "periodic");
        }
        checkAll(c, S, "before cleanup");
        // cleanup with everything still alive: edges and iterators die AFTER the library (or before, at random)
        bool edgesFirst = r.chance(1, 2);
        S.I.clear();                       // iterators hold unpacked nodes of their forest: released before the library goes away
        if (edgesFirst) S.E.clear();
        phase("cleanup");
        MEDDLY::cleanup();
        c.count("cleanups");
        for (auto& x : S.E) if (x.e->getForest() != nullptr) throw Violation("C17:edge-attached-after-cleanup", "an edge still reports a forest after MEDDLY::cleanup()");
        if (!edgesFirst) { phase("destroy-edges-after-cleanup"); c.count("edges_destroyed_after_cleanup", long(S.E.size())); S.E.clear(); }
        for (auto& d : S.D) d.w->dom = nullptr;
        sig = sig * 1000003ULL ^ hashstr(trace.c_str());
    }
    c.nontrivial = true;
    c.sig = tos(sig);
    c.sample = "{\"cycles\":" + tos(cycles) + ",\"trace\":" + jstr(trace.substr(0, 500)) + "}";
}

int main(int argc, char** argv) { return workerMain(argc, argv, "C17", run); }

// Model of transition relations built from "events" (guards + effects per variable), explicit
// closure / BFS distances.  Shared by C08, C09, C20.
#ifndef VRELMODEL_H
#define VRELMODEL_H
#include "vcommon.h"

namespace V {

struct VarRule {
    int mode = 0;                 // 0: variable untouched (no guard, unchanged)  1: guard only (unchanged)
                                  // 2: guard + set to constant  3: guard + nondeterministic choice  4: guard + (from+delta) if in range
    std::vector<bool> guard;      // allowed from values
    int cst = 0; std::vector<bool> choice; int delta = 1;
};
struct Event { std::vector<VarRule> v; /* [1..n] */ };

static inline Event randomEvent(Rng& r, const Shape& sh, int style) {
    Event e; int n = sh.n(); e.v.resize(size_t(n + 1));
    // style 0: touches few variables (local events); 1: touches many; 2: leaves its top variable unchanged
    int touched = 0;
    for (int k = 1; k <= n; k++) {
        VarRule& R = e.v[size_t(k)];
        int sz = sh.sizes[size_t(k)];
        R.guard.assign(size_t(sz), true); R.choice.assign(size_t(sz), false);
        int p = style == 1 ? 7 : 4;
        if (!r.chance(p, 10)) { R.mode = 0; continue; }
        touched++;
        R.mode = 1 + int(r.below(4));
        if (r.chance(2, 3)) { bool any = false; for (int i = 0; i < sz; i++) { R.guard[size_t(i)] = r.chance(1, 2); any = any || R.guard[size_t(i)]; } if (!any) R.guard[size_t(r.below(uint64_t(sz)))] = true; }
        R.cst = r.range(0, sz - 1);
        bool anyc = false; for (int i = 0; i < sz; i++) { R.choice[size_t(i)] = r.chance(1, 2); anyc = anyc || R.choice[size_t(i)]; } if (!anyc) R.choice[size_t(r.below(uint64_t(sz)))] = true;
        R.delta = r.chance(1, 2) ? 1 : -1;
    }
    if (!touched) { VarRule& R = e.v[size_t(r.range(1, n))]; R.mode = 4; R.delta = 1; }
    if (style == 2) {   // find the top touched variable and make it guard-only
        for (int k = n; k >= 1; k--) if (e.v[size_t(k)].mode != 0) { e.v[size_t(k)].mode = 1; break; }
    }
    return e;
}
static inline bool eventAllows(const Event& e, const Shape& sh, const std::vector<int>& a, const std::vector<int>& b) {
    for (int k = 1; k <= sh.n(); k++) {
        const VarRule& R = e.v[size_t(k)];
        int f = a[size_t(k)], t = b[size_t(k)];
        if (R.mode == 0) { if (t != f) return false; continue; }
        if (!R.guard[size_t(f)]) return false;
        switch (R.mode) {
            case 1: if (t != f) return false; break;
            case 2: if (t != R.cst) return false; break;
            case 3: if (!R.choice[size_t(t)]) return false; break;
            default: if (t != f + R.delta) return false; break;   // out of range -> disabled (t is always in range)
        }
    }
    return true;
}
static inline Table eventTable(const World& w, const Event& e) {
    Table t(size_t(w.N * w.N), Val::b(false));
    std::vector<int> a, b;
    for (long x = 0; x < w.N; x++) { w.shape.decode(x, a); for (long y = 0; y < w.N; y++) { w.shape.decode(y, b); if (eventAllows(e, w.shape, a, b)) t[size_t(x * w.N + y)] = Val::b(true); } }
    return t;
}
static inline std::string eventStr(const Event& e, const Shape& sh) {
    std::string s = "{";
    for (int k = sh.n(); k >= 1; k--) {
        const VarRule& R = e.v[size_t(k)];
        if (R.mode == 0) continue;
        s += "x" + tos(k) + ":[";
        for (size_t i = 0; i < R.guard.size(); i++) if (R.guard[i]) s += tos(i);
        s += "]";
        switch (R.mode) { case 1: s += "="; break; case 2: s += "->" + tos(R.cst); break;
            case 3: { s += "->{"; for (size_t i = 0; i < R.choice.size(); i++) if (R.choice[i]) s += tos(i); s += "}"; break; }
            default: s += (R.delta > 0 ? "++" : "--"); }
        s += " ";
    }
    return s + "}";
}
static inline Table unionTables(const std::vector<Table>& ts, size_t n) {
    Table u(n, Val::b(false));
    for (const Table& t : ts) for (size_t i = 0; i < n; i++) if (t[i].truthy()) u[i] = Val::b(true);
    return u;
}

// BFS distances from the initial set through relation rel (N x N boolean table); -1 = unreachable
static inline std::vector<long> bfsDist(long N, const std::vector<bool>& init, const Table& rel, bool forward = true) {
    std::vector<long> d(size_t(N), -1); std::vector<long> q;
    for (long i = 0; i < N; i++) if (init[size_t(i)]) { d[size_t(i)] = 0; q.push_back(i); }
    for (size_t h = 0; h < q.size(); h++) {
        long x = q[h];
        for (long y = 0; y < N; y++) {
            bool edge = forward ? rel[size_t(x * N + y)].truthy() : rel[size_t(y * N + x)].truthy();
            if (edge && d[size_t(y)] < 0) { d[size_t(y)] = d[size_t(x)] + 1; q.push_back(y); }
        }
    }
    return d;
}

} // namespace V
#endif

// C14: writing functions to an exchange file and reading them back is lossless (exactly for
// boolean, integer, EV+; to the printed precision for reals), and the reader leaves the
// receiving forest canonical with exact reference counts.
#include "audit.h"
#include "io_mdds.h"
#include <sstream>
using namespace V;

static void run(Ctx& c) {
    Rng& r = c.rng;
    bool rel = r.chance(1, 2);
    Shape sh = rel ? randomShapeW(r, 1, 4, 4, 30) : randomShapeW(r, 1, 5, 5, 600);
    if (sh.sizes.size() > 1 && *std::max_element(sh.sizes.begin(), sh.sizes.end()) >= 10) c.count("wide_variable_shapes");
    std::vector<FSpec> kinds = allKinds(rel);
    FSpec fs1 = kinds[r.below(kinds.size())]; randomPolicy(r, fs1);
    FSpec fs2 = fs1; randomPolicy(r, fs2);                 // same kind and rule, other policies
    MEDDLY::initialize();
    World w(sh);
    forest* F1 = makeForest(w.dom, fs1);
    forest* F2 = makeForest(w.dom, fs2);
    const int L = sh.n();
    Tol tol = EXACT;
    if (fs1.isEVT()) { tol.abs = 1e-9; tol.rel = (2 * L + 1) * 1.2e-5; }          // %g with 6 significant digits per edge value
    else if (fs1.isReal()) { tol.abs = 2.5e-5; tol.rel = 1e-6; }                  // terminals printed with 10 digits, rounded to 1e-5 on insert
    // ---- root list: random functions, constants (terminal roots), repeats ----------------
    int nr = int(r.below(7));
    std::vector<Table> T; std::vector<dd_edge> E;
    std::string desc;
    for (int i = 0; i < nr; i++) {
        int k = int(r.below(8));
        if (k == 0 && !T.empty()) { size_t j = r.below(T.size()); T.push_back(T[j]); E.push_back(E[j]); desc += "repeat; "; continue; }
        std::vector<Val> alpha = alphabet(r, fs1);
        // EV+ edge values are 64-bit: one root in four uses values outside the 32-bit range
        if (fs1.isEVP() && r.chance(1, 4)) { for (auto& v : alpha) if (!v.isInf()) v = Val::in((r.chance(1, 2) ? 1 : -1) * (long(3000000000L) + long(r.below(1UL << 40)))); c.count("roots_with_64bit_edge_values"); }
        Table t;
        if (k == 1) { t.assign(size_t(w.tableSize(rel)), r.chance(1, 2) ? fs1.deflt() : alpha[0]); desc += "constant; "; }
        else if (k == 2 && !T.empty()) {   // shares a large sub-graph with an earlier root
            t = T[r.below(T.size())]; size_t p = r.below(t.size()); t[p] = valEq(t[p], fs1.deflt()) ? alpha[0] : fs1.deflt(); desc += "variant; ";
        } else { t = randomTable(r, w, fs1, alpha); desc += tableStr(t, 8) + "; "; }
        dd_edge e(F1); buildChecked(w, F1, fs1, t, e, "C14");
        T.push_back(t); E.push_back(e);
    }
    // pre-populate F2 with some of the same functions (reading into a forest that already holds equal nodes)
    std::vector<dd_edge> pre;
    for (size_t i = 0; i < T.size(); i++) if (r.chance(1, 3)) { dd_edge e(F2); buildChecked(w, F2, fs2, T[i], e, "C14 pre"); pre.push_back(e); }

    const std::string kb = "C14:" + fs1.kindStr();
    // ---- write -----------------------------------------------------------------------------
    std::ostringstream oss;
    {
        phase("write:" + fs1.kindStr());
        ostream_output out(oss);
        mdd_writer W(out, F1);
        for (auto& e : E) W.writeRootEdge(e);
        W.finish();
    }
    std::string file = oss.str();
    c.count("files_written"); c.count("file_bytes", long(file.size())); c.count("roots_written", long(E.size()));
    if (E.empty()) c.count("empty_root_lists");
    // originals untouched by writing
    for (size_t i = 0; i < E.size(); i++) expectTable(w, E[i], T[i], tolFor(fs1), kb + ":write:operand-changed", "root " + tos(i) + " after writing");

    // ---- read back: same forest, other forest with other policies, forest created from the file -----------
    for (int target = 0; target < 3; target++) try {
        std::istringstream iss(file);
        istream_input in(iss);
        forest* FT = nullptr; FSpec fst = fs1;
        const char* tname = target == 0 ? "same-forest" : target == 1 ? "other-forest" : "forest-from-file";
        // The file format does not record the reduction rule: a forest created from the file gets the default rule.  For relations
        // written from a fully-/quasi-reduced forest that is a known defect class, keyed by the writer's rule only.
        const bool nonDefaultRel = target == 2 && rel && fs1.rr != reduction_rule::IDENTITY_REDUCED;
        const std::string kt = nonDefaultRel ? std::string("C14:read:forest-from-file:relation-written-from-") + shortNameOf(fs1.rr) + "-forest"
                                             : kb + ":read:" + tname;
        phase(std::string("read:") + tname + ":" + fs1.kindStr());
        mdd_reader* R = nullptr;
        try {
            if (target == 0) { FT = F1; R = new mdd_reader(in, F1); }
            else if (target == 1) { FT = F2; fst = fs2; R = new mdd_reader(in, F2); }
            else { R = new mdd_reader(in, w.dom); FT = R->getForest(); }
        } catch (MEDDLY::error& e) {
            throw Violation(kt + ":error:" + e.getName(), std::string("reading the file raised ") + e.getName() + " (file: " + file.substr(0, 300) + ")");
        }
        if (!FT) throw Violation(kt + ":no-forest", "reader has no forest");
        if (R->numRoots() != E.size())
            throw Violation(kt + ":root-count", "file has " + tos(E.size()) + " roots, reader reports " + tos(R->numRoots()));
        std::vector<dd_edge> back;
        for (size_t i = 0; i < E.size(); i++) {
            dd_edge e(FT);
            R->readRootEdge(e);
            back.push_back(e);
            Table got = evalAll(w, e);
            c.count("points_evaluated", long(got.size()));
            long d = firstDiff(got, T[i], tol);
            if (d >= 0) throw Violation(kt + ":wrong-value", "root " + tos(i) + " of " + tos(E.size()) + " read into " + tname + " (" + fst.polStr() + "): at " +
                                        pointStr(w, rel, size_t(d)) + " read=" + got[size_t(d)].str() + " written=" + T[i][size_t(d)].str() + " shape " + sh.str() + " table " + tableStr(T[i], 24));
            if (target == 0 && !fs1.isReal() && e != E[i])
                throw Violation(kb + ":read:same-forest:not-identical", "root " + tos(i) + " read back into the writing forest is a different edge (same function) shape " + sh.str() + " table " + tableStr(T[i], 24));
            // repeated roots stay repeated
            for (size_t j = 0; j < i; j++) if (E[j] == E[i] && !fs1.isReal() && back[j] != back[i])
                throw Violation(kt + ":repeat-split", "roots " + tos(j) + " and " + tos(i) + " were the same edge when written but differ after reading");
        }
        c.count(std::string("reads_") + tname);
        delete R;
        // receiving forest canonical, exact counts (back[] are registered edges and counted as roots)
        if (target == 2) {
            FSpec f3 = fs1; f3.rr = FT->getReductionRule();
            try { auditForest(FT, f3.kindStr(), c, "C14"); }
            catch (Violation& v) { if (!nonDefaultRel) throw; throw Violation(kt + ":not-canonical:" + v.key.substr(v.key.find(':', 4) + 1, v.key.rfind(':') - v.key.find(':', 4) - 1), v.detail); }
            if (FT->isForRelations() != rel || FT->getRangeType() != fs1.rt || FT->getEdgeLabeling() != fs1.el)
                throw Violation(kb + ":read:forest-from-file:wrong-forest-type", "forest created from the file has another kind than the writing forest");
            if (FT->getReductionRule() != fs1.rr) c.count("forest_from_file_has_other_rule");
        } else auditForest(FT, fst.kindStr(), c, "C14");
        back.clear();
    } catch (Violation& v) {
        // the known class (forest created from a file written by a non-identity-reduced relation forest) must not hide the rest of the case
        if (v.key.rfind("C14:read:forest-from-file:relation-written-from-", 0) == 0) c.viol(v.key, v.detail); else throw;
    }
    // ---- the domain travels in the same file (domain::write, then the forest): a reader that creates the domain AND the
    //      forest from the file must see the same variables and the same functions ----------------------------------------
    {
        std::ostringstream o2;
        { phase("write:domain"); ostream_output out(o2); w.dom->write(out); mdd_writer W(out, F1); for (auto& e : E) W.writeRootEdge(e); W.finish(); }
        const std::string file2 = o2.str();
        { std::istringstream iss(file2); istream_input in(iss); phase("verify:domain");
          try { w.dom->verify(in); } catch (MEDDLY::error& e) { throw Violation("C14:domain:verify-rejects-own-output", std::string("domain::verify on the domain's own output raised ") + e.getName() + " shape " + sh.str()); } }
        std::istringstream iss(file2); istream_input in(iss);
        phase("read:domain");
        domain* d2 = nullptr;
        try { d2 = domain::create(in); } catch (MEDDLY::error& e) { throw Violation(std::string("C14:domain:read:error:") + e.getName(), "domain::create(input) on the output of domain::write raised " + std::string(e.getName()) + " shape " + sh.str()); }
        if (int(d2->getNumVariables()) != L) throw Violation("C14:domain:read:variable-count", "domain written with " + tos(L) + " variables, read back with " + tos(d2->getNumVariables()));
        for (int v = 1; v <= L; v++) if (d2->getVariableBound(unsigned(v), false) != sh.sizes[size_t(v)] || d2->getVariableBound(unsigned(v), true) != sh.sizes[size_t(v)])
            throw Violation("C14:domain:read:bounds-differ", "domain " + sh.str() + " written and read back: variable " + tos(v) + " has bound " + tos(d2->getVariableBound(unsigned(v), false)) + " (file head: " + file2.substr(0, 60) + ")");
        c.count("domains_read_back");
        const bool nonDefaultRel = rel && fs1.rr != reduction_rule::IDENTITY_REDUCED;
        const std::string kt = nonDefaultRel ? std::string("C14:read:forest-from-file:relation-written-from-") + shortNameOf(fs1.rr) + "-forest" : kb + ":read:domain-and-forest-from-file";
        try {
            phase("read:domain-and-forest-from-file:" + fs1.kindStr());
            mdd_reader* R = nullptr;
            try { R = new mdd_reader(in, d2); } catch (MEDDLY::error& e) { throw Violation(kt + ":error:" + e.getName(), std::string("reading the forest after the domain raised ") + e.getName()); }
            forest* FT = R->getForest();
            if (!FT || R->numRoots() != E.size()) throw Violation(kt + ":root-count", "file has " + tos(E.size()) + " roots, reader reports " + tos(R->numRoots()));
            std::vector<dd_edge> back;
            for (size_t i = 0; i < E.size(); i++) {
                dd_edge e(FT); R->readRootEdge(e); back.push_back(e);
                Table got = evalAll(w, e); c.count("points_evaluated", long(got.size()));
                long d = firstDiff(got, T[i], tol);
                if (d >= 0) throw Violation(kt + ":wrong-value", "root " + tos(i) + " read into a forest and domain created from the file: at " + pointStr(w, rel, size_t(d)) + " read=" + got[size_t(d)].str() + " written=" + T[i][size_t(d)].str() + " shape " + sh.str());
            }
            delete R;
            FSpec f3 = fs1; f3.rr = FT->getReductionRule();
            try { auditForest(FT, f3.kindStr(), c, "C14"); }
            catch (Violation& v) { if (!nonDefaultRel) throw; throw Violation(kt + ":not-canonical:" + v.key.substr(v.key.find(':', 4) + 1, v.key.rfind(':') - v.key.find(':', 4) - 1), v.detail); }
            c.count("reads_domain-and-forest-from-file");
        } catch (Violation& v) {
            if (v.key.rfind("C14:read:forest-from-file:relation-written-from-", 0) == 0) c.viol(v.key, v.detail); else throw;
        }
    }
    auditForest(F1, fs1.kindStr(), c, "C14");
    auditForest(F2, fs2.kindStr(), c, "C14");
    uint64_t sig = hashstr(fs1.str().c_str()) ^ hashstr(sh.str().c_str());
    bool nontriv = false;
    for (auto& t : T) { sig = sig * 1000003ULL ^ tableHash(t); for (auto& x : t) if (!valEq(x, t[0])) nontriv = true; }
    c.nontrivial = nontriv;
    c.sig = tos(sig);
    c.count("kind:" + fs1.kindStr());
    c.sample = "{\"shape\":" + jstr(sh.str()) + ",\"writer\":" + jstr(fs1.str()) + ",\"reader\":" + jstr(fs2.polStr()) + ",\"roots\":" + jstr(desc) + ",\"file_head\":" + jstr(file.substr(0, 160)) + "}";
    MEDDLY::cleanup();
}

int main(int argc, char** argv) { return workerMain(argc, argv, "C14", run); }

// C06: node lifetime -- reference counts exact, nothing dangles, nothing leaks.
//   most cases : scripted multi-forest histories (error-free by construction) with the recount M2, the
//                structural audit M1 (no live node points to a reclaimed node), the cache-count audit M3 after
//                EVERY step, the held-edge shadow M4, the handle monitor M5, and the final leak check;
//   idx % 8 == 0: counter-width / table-growth cases (8 -> 16 -> 32 bit incoming counts, > 255 parents, > 255
//                cache entries on one node, thousands of nodes born and killed), audited at every plateau.
#include "script.h"
using namespace V;

static void auditOne(forest* f, const FSpec& fs, Ctx& c, const char* when) {
    try { auditForest(f, fs.kindStr(), c, "C06"); }
    catch (Violation& v) { throw Violation(v.key, std::string(when) + ": " + v.detail + " [" + fs.str() + "]"); }
    checkHandleMonitor(c, "C06", fs.rel ? "rel" : "set");
}

static void widthCase(Ctx& c) {
    Rng& r = c.rng;
    const long wk = c.idx / 8;                 // width cases are every 8th case; the scenario is a function of the case index so that
    int which = int(wk % 7); (void)r.below(7);   // every scenario (and every sub-variant below) is exercised whatever the seed   // 5, 6: several nodes in different counter-width classes at once, with table growth/shrink in between
    Config cfg = randomConfig(r, 1, true);
    initWithCT(cfg);
    installHandleMonitor();
    Shape sh; sh.sizes = {0, 4, 5}; if (which == 4) sh.sizes = {0, 4, 4, 4, 4, 3};
    World w(sh);
    FSpec fs = mkSpec(false, range_type::INTEGER, edge_labeling::MULTI_TERMINAL, r.chance(1, 2) ? reduction_rule::FULLY_REDUCED : reduction_rule::QUASI_REDUCED);
    applyPolicy(fs, cfg.st[0], cfg.mm[0], cfg.del[0]);
    forest* F = makeForest(w.dom, fs);
    std::string what;
    auto tableG = [&]() { Table g(size_t(w.N), Val::in(0)); for (long p = 0; p < w.N; p++) g[size_t(p)] = Val::in(1 + (p % 4)); return g; };   // depends on x1 only
    if (which == 0 || which == 1) {
        // many dd_edge copies of one edge: 300 (8 -> 16 bit) or 70000 (16 -> 32 bit)
        long n = which == 0 ? 300 : 70000;
        what = tos(n) + " copies of one dd_edge";
        Table t = tableG(); t[3] = Val::in(9);
        dd_edge root(F); buildChecked(w, F, fs, t, root, "C06");
        std::vector<dd_edge> copies; copies.reserve(size_t(n));
        long stops[] = {200, 255, 256, 257, 300, 65535, 65536, 65537, n};
        size_t si = 0;
        for (long i = 0; i < n; i++) {
            copies.push_back(root);
            while (si < 9 && stops[si] < i + 1) si++;
            if (si < 9 && stops[si] == i + 1) { auditOne(F, fs, c, "growing the number of copies"); c.count("width_plateaus_audited"); }
        }
        unsigned long in = F->getNodeInCount(root.getNode());
        if (in != (unsigned long)(n + 1)) throw Violation("C06:width:root-count", "root has " + tos(n + 1) + " registered edges but incoming count " + tos(in));
        if (n > 65536) c.count("crossed_16_to_32_bit"); c.count("crossed_8_to_16_bit");
        r.shuffle(copies);
        while (!copies.empty()) {
            copies.pop_back();
            long left = long(copies.size());
            if (left == 65536 || left == 65535 || left == 300 || left == 256 || left == 255 || left == 254 || left == 10 || left == 0) { auditOne(F, fs, c, "releasing copies in random order"); c.count("width_plateaus_audited"); }
        }
        expectTable(w, root, t, EXACT, "C06:width:held-edge-changed", "root after all copies were released");
    } else if (which == 2) {
        // more than 255 parent nodes of one node
        what = "300 parent nodes of one node";
        Table g = tableG();
        std::vector<dd_edge> parents; std::vector<Table> tabs;
        for (int i = 0; i < 300; i++) {
            Table t(static_cast<size_t>(w.N));
            for (long p = 0; p < w.N; p++) { long x2 = p / 4; t[size_t(p)] = x2 == 0 ? g[size_t(p)] : Val::in(100 + i + (x2 == 3 ? 1 : 0)); }
            dd_edge e(F); buildFromTable(w, F, t, e); parents.push_back(e); tabs.push_back(t);
            if (i == 254 || i == 255 || i == 256 || i == 299) { auditOne(F, fs, c, "growing the number of parents"); c.count("width_plateaus_audited"); }
        }
        c.count("crossed_8_to_16_bit");
        for (size_t i = 0; i < parents.size(); i += 37) expectTable(w, parents[i], tabs[i], EXACT, "C06:width:held-edge-changed", "parent " + tos(i));
        std::vector<size_t> order(parents.size()); for (size_t i = 0; i < order.size(); i++) order[i] = i; r.shuffle(order);
        size_t released = 0;
        for (size_t k : order) { parents[k] = dd_edge(); released++; if (released == 44 || released == 45 || released == 46 || released == 150 || released == 299 || released == 300) { auditOne(F, fs, c, "releasing parents"); c.count("width_plateaus_audited"); } }
    } else if (which == 3) {
        // more than 255 compute-table entries mentioning one node
        what = "300 cache entries on one node";
        Table g = tableG(); dd_edge eg(F); buildFromTable(w, F, g, eg);
        std::vector<dd_edge> keep;
        for (int i = 0; i < 300; i++) {
            Table h(size_t(w.N), Val::in(0)); h[size_t(r.below(uint64_t(w.N)))] = Val::in(10 + i); h[size_t(r.below(uint64_t(w.N)))] = Val::in(500 + i);
            dd_edge eh(F), res(F); buildFromTable(w, F, h, eh);
            apply(PLUS, eg, eh, res);
            BinModel m = modelBin(B_PLUS, g, h, false);
            expectTable(w, res, m.out, EXACT, "C06:width:wrong-value", "PLUS #" + tos(i));
            if (r.chance(1, 3)) keep.push_back(res);
            if (i == 254 || i == 255 || i == 256 || i == 299) { auditOne(F, fs, c, "growing the number of cache entries"); c.count("width_plateaus_audited"); }
        }
        c.count("cachecount_width_cases");
        keep.clear(); auditOne(F, fs, c, "results released");
        F->removeAllComputeTableEntries(); auditOne(F, fs, c, "caches cleared");
        eg = dd_edge();
    } else if (which >= 5) {
        // Node A is pushed past the 8->16 (which 5) or 16->32 bit (which 6) threshold, node B past 255 and node C stays small;
        // then A is released again, the handle table is made to grow and shrink (counter arrays may be narrowed), and only
        // then B and C are released.  Audited at every stage: every stored count must still be exact.
        long nA = which == 5 ? 300 : 70000;
        what = std::string("mixed counter widths (A=") + tos(nA) + ", B=300, C=70) with table growth in between";
        Table ta = tableG(), tb = tableG(), tc = tableG(); ta[1] = Val::in(11); tb[2] = Val::in(12); tc[3] = Val::in(13);
        dd_edge A(F), B(F), C(F); buildChecked(w, F, fs, ta, A, "C06"); buildChecked(w, F, fs, tb, B, "C06"); buildChecked(w, F, fs, tc, C, "C06");
        std::vector<dd_edge> ca, cb, cc;
        // push_back into an unreserved vector re-copies the elements at every capacity doubling, so a count crosses each
        // threshold several times in both directions; with reserve() it crosses exactly once.  Both histories are wanted.
        bool reserved = (wk / 7) % 2 == 1; (void)r.chance(1, 2);
        if (reserved) { ca.reserve(size_t(nA)); cb.reserve(300); cc.reserve(70); c.count("mixed_width_single_crossing_histories"); }
        bool bFirst = (wk / 14) % 2 == 1; (void)r.chance(1, 2);
        if (bFirst) for (int i = 0; i < 300; i++) cb.push_back(B);
        for (long i = 0; i < nA; i++) ca.push_back(A);
        if (!bFirst) for (int i = 0; i < 300; i++) cb.push_back(B);
        for (int i = 0; i < 70; i++) cc.push_back(C);
        auditOne(F, fs, c, "all copies made"); c.count("width_plateaus_audited");
        if (which == 6 && !bFirst && reserved) c.count("mixed_width_second_node_passes_255_once_in_32bit_mode");
        if (nA > 65536) c.count("crossed_16_to_32_bit"); c.count("crossed_8_to_16_bit");
        // release A (all, or down to a few)
        size_t keepA = r.chance(1, 2) ? 0 : size_t(r.range(1, 200));
        r.shuffle(ca); ca.resize(keepA);
        auditOne(F, fs, c, "A released"); c.count("width_plateaus_audited");
        // grow the handle table well past 512 live nodes, then shrink it again
        {
            std::vector<dd_edge> bulk; std::vector<Val> alpha; for (int i = 1; i <= 9; i++) alpha.push_back(Val::in(20 + i));
            for (int i = 0; i < 260; i++) { Table t(size_t(w.N)); for (auto& v : t) v = alpha[r.below(9)]; dd_edge e(F); buildFromTable(w, F, t, e); bulk.push_back(e); }
            c.count("mixed_width_peak_nodes", F->getCurrentNumNodes());
            auditOne(F, fs, c, "handle table grown"); c.count("width_plateaus_audited");
            bulk.clear();
            F->removeAllComputeTableEntries();
            auditOne(F, fs, c, "handle table shrunk"); c.count("width_plateaus_audited");
        }
        unsigned long inB = F->getNodeInCount(B.getNode()), inC = F->getNodeInCount(C.getNode());
        if (inB != 301 || inC != 71) throw Violation("C06:width:count-lost-after-table-resize", "after growing and shrinking the handle table: B has 301 registered edges but incoming count " + tos(inB) + ", C has 71 but " + tos(inC));
        expectTable(w, B, tb, EXACT, "C06:width:held-edge-changed", "B after resize"); expectTable(w, C, tc, EXACT, "C06:width:held-edge-changed", "C after resize");
        // release B and C in random order, auditing on the way; the handles must not be recycled while edges hold them
        r.shuffle(cb);
        while (!cb.empty()) { cb.pop_back(); size_t left = cb.size(); if (left == 256 || left == 255 || left == 254 || left == 100 || left == 45 || left == 44 || left == 1 || left == 0) { auditOne(F, fs, c, "releasing B"); expectTable(w, B, tb, EXACT, "C06:width:held-edge-changed", "B while releasing its copies"); c.count("width_plateaus_audited"); } }
        cc.clear(); ca.clear();
        auditOne(F, fs, c, "all copies released");
        expectTable(w, A, ta, EXACT, "C06:width:held-edge-changed", "A at the end"); expectTable(w, B, tb, EXACT, "C06:width:held-edge-changed", "B at the end"); expectTable(w, C, tc, EXACT, "C06:width:held-edge-changed", "C at the end");
        c.count("mixed_width_cases");
    } else {
        // thousands of nodes born and killed: handle array and unique tables grow and shrink
        what = "waves of thousands of nodes";
        std::vector<Val> alpha; for (int i = 1; i <= 6; i++) alpha.push_back(Val::in(i));
        for (int wave = 0; wave < 3; wave++) {
            std::vector<dd_edge> es; std::vector<Table> ts;
            int n = r.range(40, 90);
            for (int i = 0; i < n; i++) { Table t(size_t(w.N)); for (auto& v : t) v = r.chance(2, 3) ? alpha[r.below(6)] : Val::in(0); dd_edge e(F); buildFromTable(w, F, t, e); es.push_back(e); ts.push_back(t); }
            c.count("wave_peak_nodes", F->getCurrentNumNodes());
            auditOne(F, fs, c, "wave peak");
            for (size_t i = 0; i < es.size(); i += 11) expectTable(w, es[i], ts[i], EXACT, "C06:width:held-edge-changed", "wave edge " + tos(i));
            r.shuffle(es); size_t half = es.size() / 2; es.resize(half); auditOne(F, fs, c, "half released");
            es.clear(); if (wave == 1) F->removeAllComputeTableEntries(); auditOne(F, fs, c, "wave released");
            c.count("width_plateaus_audited", 3);
        }
    }
    // leak check
    F->removeAllComputeTableEntries();
    long n = F->getCurrentNumNodes();
    if (n != 0) throw Violation(std::string("C06:leak:nodes-left-after-release-and-cache-clear:") + fs.kindStr() + ":" + (cfg.del[0] == 0 ? "opt" : cfg.del[0] == 1 ? "pess" : "never"), tos(n) + " nodes left after " + what + " [" + fs.str() + "]");
    auditOne(F, fs, c, "end");
    removeHandleMonitor();
    MEDDLY::cleanup();
    c.count("width_cases"); c.count(std::string("width_case:") + what);
    c.nontrivial = true; c.sig = "width-" + tos(c.idx);
    c.sample = "{\"width_case\":" + jstr(what) + ",\"forest\":" + jstr(fs.str()) + ",\"config\":" + jstr(cfg.str()) + "}";
}

static void run(Ctx& c) {
    if (c.idx % 8 == 0) { widthCase(c); return; }
    Rng& r = c.rng;
    ScriptOpts so; so.minSteps = 30; so.maxSteps = c.thorough ? 200 : 90; so.maxSetPoints = 200; so.maxRelStates = 16;
    Script S = genScript(r, so);
    Config cfg = randomConfig(r, S.forests.size(), true);
    ExecOpts eo; eo.prop = "C06"; eo.auditEvery = 1; eo.canon = false; eo.reevalEvery = 4; eo.finalLeakCheck = true;
    runScript(S, cfg, c, eo);
    uint64_t sig = hashstr(S.str().c_str()); for (auto& st : S.steps) sig = sig * 1000003ULL ^ uint64_t(st.k * 31 + st.op) ^ (st.table.empty() ? 0 : tableHash(st.table));
    c.sig = tos(sig);
    c.nontrivial = c.counters["refcounts_checked"] > 50;
    for (size_t i = 0; i < cfg.del.size(); i++) c.count(std::string("deletion:") + (cfg.del[i] == 0 ? "optimistic" : cfg.del[i] == 1 ? "pessimistic" : "never"));
    c.sample = "{\"script\":" + jstr(S.str()) + ",\"config\":" + jstr(cfg.str()) + "}";
}
int main(int argc, char** argv) { return workerMain(argc, argv, "C06", run); }

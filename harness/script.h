// Scripted histories (DESIGN section 3): a script is generated once, as data, from a seed, and is
// executed by the model while it is generated (every slot has an explicit table).  The
// interpreter replays the same script against the library under a configuration (forest
// policies, compute-table settings) with the monitors switched on.  Used by C01, C02, C06,
// C07, C12 (and, with extra step kinds, C13/C16).
#ifndef VSCRIPT_H
#define VSCRIPT_H
#include "audit.h"
#include "opsmodel.h"
#include "io_mdds.h"
#include "ct_initializer.h"
#include <sstream>

namespace V {

enum StepKind { S_BUILD, S_REBUILD, S_BIN, S_COMPLEMENT, S_COPY, S_RELEASE, S_ASSIGN, S_CLEAR, S_GC, S_CHURN, S_FILE };
static inline const char* stepName(int k) {
    static const char* n[] = {"build", "rebuild", "bin", "complement", "copy", "release", "assign", "clear-cache", "remove-stales", "churn", "file-roundtrip"};
    return n[k];
}
struct Step {
    int k = S_BUILD;
    int dst = -1, a = -1, b = -1;    // slots
    int forest = 0;                  // forest index of dst / target of CLEAR
    int op = 0;                      // BinOp for S_BIN ; mode for S_REBUILD
    uint64_t rseed = 0;              // private randomness of the step (churn, rebuild order)
    Table table;                     // model result of the step (table of dst afterwards)
};
struct Script {
    bool rel = false; Shape shape;
    std::vector<FSpec> forests;      // kind + rule (policies come from the configuration)
    int nslots = 0;
    std::vector<Step> steps;
    int valueKind = 0;               // 0 bool, 1 MT int, 2 MT real (exact lane), 3 EV+ int
    uint64_t orderSeed = 0;          // != 0: every forest is given the same random variable order before the first step
    std::string str() const { return std::string(rel ? "rel" : "set") + " shape " + shape.str() + " " + tos(forests.size()) + " forests " + tos(steps.size()) + " steps"; }
};

struct ScriptOpts {
    int minSteps = 30, maxSteps = 120;
    int maxSetPoints = 400, maxRelStates = 20;
    bool allowChurn = true, allowFile = true, allowRelations = true;
    int forceValueKind = -1;
    bool wideShapes = false; // one script in six over a shape with a 10..40-valued variable (randomShapeW)
    int rebuildBoost = 0;   // extra percentage of steps that rebuild an existing function along another route (C01)
};

static inline bool tableBounded(const Table& t, double lim) {
    for (const Val& v : t) { if (v.isInf()) continue; if (v.k == Val::R ? std::fabs(v.r) > lim : std::labs(v.i) > long(lim)) return false; }
    return true;
}

// ------------------------------------------------------------------------------------
// Generation (pure model)
// ------------------------------------------------------------------------------------
static inline Script genScript(Rng& r, const ScriptOpts& o) {
    Script S;
    S.rel = o.allowRelations && r.chance(2, 5);
    if (o.wideShapes) S.shape = S.rel ? randomShapeW(r, 1, 3, 4, o.maxRelStates) : randomShapeW(r, 1, 5, 5, o.maxSetPoints);
    else S.shape = S.rel ? randomShape(r, 1, 3, 4, o.maxRelStates) : randomShape(r, 1, 5, 5, o.maxSetPoints);
    S.valueKind = o.forceValueKind >= 0 ? o.forceValueKind : int(r.below(4));
    World wm; wm.shape = wm.shapeP = S.shape; wm.N = wm.NP = S.shape.npoints();   // model-only world (no domain)
    std::vector<reduction_rule> rules = {reduction_rule::FULLY_REDUCED, reduction_rule::QUASI_REDUCED};
    if (S.rel) rules.push_back(reduction_rule::IDENTITY_REDUCED);
    auto kindSpec = [&](int vk, reduction_rule rr) {
        switch (vk) {
            case 0: return mkSpec(S.rel, range_type::BOOLEAN, edge_labeling::MULTI_TERMINAL, rr);
            case 1: return mkSpec(S.rel, range_type::INTEGER, edge_labeling::MULTI_TERMINAL, rr);
            case 2: return mkSpec(S.rel, range_type::REAL, edge_labeling::MULTI_TERMINAL, rr);
            default: return mkSpec(S.rel, range_type::INTEGER, edge_labeling::EVPLUS, rr);
        }
    };
    // value forests: one per rule in random order, plus a second object of one rule
    r.shuffle(rules);
    int nvf = r.range(2, int(rules.size()) + 1);
    for (int i = 0; i < nvf; i++) S.forests.push_back(kindSpec(S.valueKind, rules[size_t(i) % rules.size()]));
    int nValue = int(S.forests.size());
    int boolF = -1;
    if (S.valueKind != 0) { boolF = int(S.forests.size()); S.forests.push_back(kindSpec(0, rules[r.below(rules.size())])); }
    // small alphabet: few distinct values, so equal functions arise along different routes
    std::vector<Val> alpha;
    {
        int k = r.range(1, 3);
        for (int i = 0; i < k; i++) {
            switch (S.valueKind) {
                case 0: alpha.push_back(Val::b(true)); break;
                case 1: alpha.push_back(Val::in(r.range(-9, 9) ? r.range(-9, 9) : 3)); break;
                case 2: alpha.push_back(Val::re(0.5 * (r.range(-9, 9) ? r.range(-9, 9) : 3))); break;
                default: alpha.push_back(Val::in(r.range(0, 9))); break;
            }
            if (S.valueKind == 1 && alpha.back().i == 0) alpha.back().i = 2;
            if (S.valueKind == 2 && alpha.back().r == 0) alpha.back().r = 1.5;
        }
    }
    S.nslots = r.range(4, 10);
    if (S.shape.n() >= 2 && !(S.rel && S.valueKind == 3) && r.chance(1, 4)) S.orderSeed = r.next() | 1;   // (EV+ relations cannot be reordered)
    std::vector<Table> cur(static_cast<size_t>(S.nslots)); std::vector<int> curF(size_t(S.nslots), -1);   // -1 = dead
    auto liveSlots = [&](int wantBool /* -1 any, 0 value kind, 1 bool */) {
        std::vector<int> v;
        for (int s = 0; s < S.nslots; s++) { if (curF[size_t(s)] < 0) continue; bool isB = S.forests[size_t(curF[size_t(s)])].isBool();
            if (wantBool == -1 || (wantBool == 1) == isB) v.push_back(s); }
        return v;
    };
    auto pickDst = [&]() { // prefer a dead slot, else overwrite a random one
        std::vector<int> dead; for (int s = 0; s < S.nslots; s++) if (curF[size_t(s)] < 0) dead.push_back(s);
        if (!dead.empty() && r.chance(3, 4)) return dead[r.below(dead.size())];
        return int(r.below(uint64_t(S.nslots)));
    };
    auto valueForest = [&]() { return int(r.below(uint64_t(nValue))); };
    auto emit = [&](Step st) { if (st.dst >= 0 && st.k != S_RELEASE) { cur[size_t(st.dst)] = st.table; curF[size_t(st.dst)] = st.forest; } S.steps.push_back(st); };
    const bool valBool = S.valueKind == 0;
    const bool real = S.valueKind == 2;
    int nsteps = r.range(o.minSteps, o.maxSteps);
    while (int(S.steps.size()) < nsteps) {
        std::vector<int> lv = liveSlots(valBool ? -1 : 0), lb = valBool ? lv : liveSlots(1), la = liveSlots(-1);
        int pick = int(r.below(100));
        Step st; st.rseed = r.next();
        if (!la.empty() && lv.size() >= 2 && o.rebuildBoost && r.chance(o.rebuildBoost, 100)) pick = 15;
        if (lv.size() < 2 || pick < 12) {                                       // BUILD
            st.k = S_BUILD; st.dst = pickDst(); st.forest = valueForest();
            st.table = randomTable(r, wm, S.forests[size_t(st.forest)], alpha);
            emit(st); continue;
        }
        if (pick < 20) {                                                        // REBUILD an existing function along another route
            st.k = S_REBUILD; st.a = la[r.below(la.size())]; st.dst = pickDst(); st.forest = curF[size_t(st.a)];
            st.op = int(r.below(3)); st.table = cur[size_t(st.a)];
            emit(st); continue;
        }
        if (pick < 55) {                                                        // binary operation
            st.k = S_BIN; st.a = lv[r.below(lv.size())]; st.b = r.chance(1, 8) ? st.a : lv[r.below(lv.size())]; st.dst = pickDst();
            std::vector<int> ops;
            if (valBool) ops = {B_UNION, B_INTERSECTION, B_DIFFERENCE};
            else if (S.valueKind == 3) ops = {B_PLUS, B_MAXIMUM, B_MINIMUM, B_MINIMUM};
            else if (real) ops = {B_PLUS, B_MINUS, B_MAXIMUM, B_MINIMUM};   // exact lane: sums of multiples of 1/2 stay fixed points of the 1e-5 terminal rounding, products do not
            else ops = {B_PLUS, B_MINUS, B_MAXIMUM, B_MINIMUM, B_MULTIPLY};
            if (!valBool && boolF >= 0 && r.chance(1, 4)) ops = {B_EQ, B_NE, B_LT, B_LE, B_GT, B_GE};
            st.op = ops[r.below(ops.size())];
            BinModel m = modelBin(st.op, cur[size_t(st.a)], cur[size_t(st.b)], real);
            if (m.hasErr || m.nskip || !tableBounded(m.out, 1e6)) { st.op = valBool ? B_UNION : B_MAXIMUM; m = modelBin(st.op, cur[size_t(st.a)], cur[size_t(st.b)], real); }
            st.forest = isCompare(st.op) ? boolF : valueForest();
            st.table = m.out;
            emit(st); continue;
        }
        if (pick < 62 && !lb.empty()) {                                         // complement (boolean forests)
            st.k = S_COMPLEMENT; st.a = lb[r.below(lb.size())]; st.dst = pickDst();
            st.forest = valBool ? valueForest() : boolF;
            st.table.resize(cur[size_t(st.a)].size());
            for (size_t i = 0; i < st.table.size(); i++) st.table[i] = Val::b(!cur[size_t(st.a)][i].truthy());
            emit(st); continue;
        }
        if (pick < 72) {                                                        // copy into another forest of the same value kind
            st.k = S_COPY; st.a = lv[r.below(lv.size())]; st.dst = pickDst(); st.forest = valueForest();
            st.table = cur[size_t(st.a)];
            emit(st); continue;
        }
        if (pick < 82) { st.k = S_RELEASE; st.dst = la[r.below(la.size())]; curF[size_t(st.dst)] = -1; cur[size_t(st.dst)].clear(); emit(st); continue; }
        if (pick < 87) {                                                        // edge assignment (same forest), incl. self assignment
            st.k = S_ASSIGN; st.a = la[r.below(la.size())]; st.dst = r.chance(1, 6) ? st.a : pickDst(); st.forest = curF[size_t(st.a)]; st.table = cur[size_t(st.a)];
            emit(st); continue;
        }
        if (pick < 91) { st.k = S_CLEAR; st.forest = int(r.below(S.forests.size())); emit(st); continue; }
        if (pick < 94) { st.k = S_GC; emit(st); continue; }
        if (pick < 97 && o.allowChurn) { st.k = S_CHURN; st.forest = int(r.below(S.forests.size())); st.op = r.range(3, 12); emit(st); continue; }
        if (o.allowFile) {                                                      // write + read back into the same forest
            st.k = S_FILE; st.a = la[r.below(la.size())]; st.dst = pickDst(); st.forest = curF[size_t(st.a)]; st.table = cur[size_t(st.a)];
            emit(st); continue;
        }
    }
    return S;
}

// ------------------------------------------------------------------------------------
// Configuration and execution
// ------------------------------------------------------------------------------------
struct Config {
    std::vector<int> st, mm, del;       // per forest: storage 0..2, memory manager 0..3, deletion 0..2
    int ctStyle = 1;                    // ct_initializer::builtinCTstyle (default MonolithicUnchainedHash)
    int ctStale = 1;                    // 0 Aggressive, 1 Moderate, 2 Lazy
    unsigned long ctMax = 16777216;
    bool clearEveryStep = false;
    std::string str() const {
        std::string s = "ct=" + tos(ctStyle) + "/" + tos(ctStale) + "/" + tos(ctMax) + (clearEveryStep ? "/clear-every-step" : "") + " pol=";
        for (size_t i = 0; i < st.size(); i++) s += tos(st[i]) + tos(mm[i]) + tos(del[i]) + " ";
        return s;
    }
};
static inline void applyPolicy(FSpec& f, int st, int mm, int del) {
    static const node_storage_flags sts[] = {FULL_OR_SPARSE, FULL_ONLY, SPARSE_ONLY};
    static const policies::node_deletion dels[] = {policies::node_deletion::OPTIMISTIC, policies::node_deletion::PESSIMISTIC, policies::node_deletion::NEVER};
    f.st = sts[st]; f.mm = mm; f.del = dels[del];
}
static inline Config randomConfig(Rng& r, size_t nf, bool randomCT) {
    Config c; for (size_t i = 0; i < nf; i++) { c.st.push_back(int(r.below(3))); c.mm.push_back(int(r.below(4))); c.del.push_back(int(r.below(3))); }
    if (randomCT) { c.ctStyle = int(r.below(4)); c.ctStale = int(r.below(3)); unsigned long ms[] = {1024, 4096, 65536, 16777216}; c.ctMax = ms[r.below(4)]; }
    return c;
}
static inline void initWithCT(const Config& c) {
    initializer_list* IL = defaultInitializerList(nullptr);
    static const ct_initializer::builtinCTstyle sty[] = {ct_initializer::MonolithicChainedHash, ct_initializer::MonolithicUnchainedHash,
                                                        ct_initializer::OperationChainedHash, ct_initializer::OperationUnchainedHash};
    static const staleRemovalOption sro[] = {staleRemovalOption::Aggressive, staleRemovalOption::Moderate, staleRemovalOption::Lazy};
    ct_initializer::setBuiltinStyle(sty[c.ctStyle & 3]);
    ct_initializer::setStaleRemoval(sro[c.ctStale % 3]);
    ct_initializer::setMaxSize(c.ctMax);
    MEDDLY::initialize(IL);
}

struct ExecOpts {
    std::string prop = "C02";
    int auditEvery = 8;            // M1(+M2,M3) every k steps (1 = after every step); 0 = only at the end
    bool canon = true;             // C01 invariant: same forest, equal tables <=> equal edges
    int reevalEvery = 10;          // M4: re-evaluate every held edge every k steps
    bool finalLeakCheck = true;    // C06: after releasing everything and clearing caches no node is left
    bool handleMonitor = true;     // M5
    std::vector<long>* nodeCounts = nullptr;   // out: per step, node count of dst (-1 if none)
    const std::vector<long>* expectNodeCounts = nullptr;
};

// Build `t` in forest f along route `mode`: 0 = minterm collection (points in shuffled order),
// 1 = point-by-point accumulation with UNION / MAXIMUM / MINIMUM, 2 = collection split in two halves combined by the same operation.
static long g_aliasRoutes = 0;
static inline void buildAlong(Rng& r, const World& w, forest* f, const FSpec& fs, const Table& t, int mode, dd_edge& out, int forceAlias = -1) {
    bool rel = fs.rel;
    const bool evp = fs.isEVP();
    Val bg = t[0];
    for (const Val& v : t) { if (evp ? valLess(bg, v) : valLess(v, bg)) bg = v; }     // min (MT) or max (EV+)
    std::vector<size_t> pts; for (size_t i = 0; i < t.size(); i++) if (!valEq(t[i], bg)) pts.push_back(i);
    r.shuffle(pts);
    // real-valued forests, one route in three: every zero is written as a double that is non-zero but underflows to 0 in
    // single precision (the forests store floats), so it must be indistinguishable from 0 -- same function, same edge
    static const double ALIAS[] = {1e-60, 1e-46, 4.9e-324};
    const bool aliasDraw = fs.isReal() && r.chance(1, 3); const double az = ALIAS[r.below(3)];
    const bool alias = forceAlias < 0 ? aliasDraw : (forceAlias > 0 && fs.isReal());
    auto rv = [&](const Val& v) { return (alias && v.k == Val::R && v.r == 0) ? rangeval(az) : toRV(v); };
    if (alias) g_aliasRoutes++;
    auto fill = [&](minterm& m, size_t i) { if (!rel) setMintermSet(f, w.shape, m, long(i)); else setMintermRel(f, w.shape, m, long(i) / w.N, long(i) % w.N); m.setValue(rv(t[i])); };
    auto coll = [&](size_t lo, size_t hi, dd_edge& e) {
        minterm_coll mc(unsigned(std::max<size_t>(1, hi - lo)), f);
        for (size_t k = lo; k < hi; k++) { fill(mc.unused(), pts[k]); mc.pushUnused(); }
        if (evp) mc.buildFunctionMin(rv(bg), e); else mc.buildFunctionMax(rv(bg), e);
    };
    out.attach(f);
    if (mode == 0 || pts.size() < 2) { coll(0, pts.size(), out); return; }
    binary_factory& acc = fs.isBool() ? UNION() : (evp ? MINIMUM() : MAXIMUM());
    if (mode == 2) { dd_edge a(f), b(f); size_t mid = pts.size() / 2; coll(0, mid, a); coll(mid, pts.size(), b); apply(acc, a, b, out); return; }
    // mode 1: accumulate single minterms
    f->createConstant(rv(bg), out);
    size_t limit = std::min<size_t>(pts.size(), 48);
    for (size_t k = 0; k < limit; k++) { dd_edge one(f); minterm m(f); fill(m, pts[k]); m.buildFunction(rv(bg), one); apply(acc, out, one, out); }
    if (limit < pts.size()) { dd_edge rest(f); coll(limit, pts.size(), rest); apply(acc, out, rest, out); }
}

struct RunResult { long steps = 0; long eqPairsChecked = 0, eqPairsEqual = 0; };

// Executes the script; MEDDLY must NOT be initialised; leaves it cleaned up.
static inline RunResult runScript(const Script& S, const Config& cfg, Ctx& c, const ExecOpts& o) {
    RunResult RR;
    const std::string P = o.prop;
    initWithCT(cfg);
    if (o.handleMonitor) installHandleMonitor();
    World w(S.shape);
    std::vector<FSpec> fs = S.forests; std::vector<forest*> F;
    for (size_t i = 0; i < fs.size(); i++) { applyPolicy(fs[i], cfg.st[i], cfg.mm[i], cfg.del[i]); F.push_back(makeForest(w.dom, fs[i])); }
    if (S.orderSeed) {
        Rng orr(S.orderSeed); int n = S.shape.n();
        std::vector<int> l2v(size_t(n + 1), 0), perm; for (int i = 1; i <= n; i++) perm.push_back(i);
        orr.shuffle(perm); for (int i = 1; i <= n; i++) l2v[size_t(i)] = perm[size_t(i - 1)];
        phase("script:reorder-empty-forests");
        for (forest* f : F) f->reorderVariables(l2v.data());
        c.count("scripts_in_reordered_forests");
    }
    std::vector<dd_edge> E(static_cast<size_t>(S.nslots)); std::vector<Table> T(static_cast<size_t>(S.nslots)); std::vector<int> EF(size_t(S.nslots), -1);
    const bool real = S.valueKind == 2;
    const Tol tol = real ? Tol{1e-9, 1e-9} : EXACT;
    auto auditAll = [&](const char* when) {
        for (size_t i = 0; i < F.size(); i++) {
            try { auditForest(F[i], fs[i].kindStr(), c, P); }
            catch (Violation& v) { throw Violation(v.key, std::string(when) + ": " + v.detail + " [forest " + tos(i) + " " + fs[i].str() + "]"); }
        }
        if (o.handleMonitor) checkHandleMonitor(c, P, S.rel ? "rel" : "set");
    };
    size_t stepNo = 0;
    for (const Step& st : S.steps) {
        stepNo++;
        std::string ctx = "step " + tos(stepNo) + "/" + tos(S.steps.size()) + " " + stepName(st.k) + " (" + S.str() + "; " + cfg.str() + ")";
        phase(std::string("script:") + stepName(st.k));
        Rng sr(st.rseed);
        long nodeCount = -1;
        switch (st.k) {
            case S_BUILD: { dd_edge e(F[size_t(st.forest)]); buildFromTable(w, F[size_t(st.forest)], st.table, e); E[size_t(st.dst)] = e; break; }
            case S_REBUILD: { dd_edge e(F[size_t(st.forest)]); const long ar0 = g_aliasRoutes; buildAlong(sr, w, F[size_t(st.forest)], fs[size_t(st.forest)], st.table, st.op, e); E[size_t(st.dst)] = e; if (g_aliasRoutes > ar0) c.count("rebuilds_with_zero_written_as_underflowing_double"); break; }
            case S_BIN: {
                dd_edge res(F[size_t(st.forest)]);
                phase(std::string("script:") + binName(st.op) + ":" + shortNameOf(fs[size_t(EF[size_t(st.a)])].rr) + "," + shortNameOf(fs[size_t(EF[size_t(st.b)])].rr) + "->" + shortNameOf(fs[size_t(st.forest)].rr));
                apply(binFactory(st.op), E[size_t(st.a)], E[size_t(st.b)], res);
                E[size_t(st.dst)] = res; c.count("script_binops"); break;
            }
            case S_COMPLEMENT: { dd_edge res(F[size_t(st.forest)]); apply(COMPLEMENT, E[size_t(st.a)], res); E[size_t(st.dst)] = res; break; }
            case S_COPY: { dd_edge res(F[size_t(st.forest)]); apply(COPY, E[size_t(st.a)], res); E[size_t(st.dst)] = res; c.count("script_copies"); break; }
            case S_RELEASE: { E[size_t(st.dst)] = dd_edge(); EF[size_t(st.dst)] = -1; T[size_t(st.dst)].clear(); c.count("script_releases"); break; }
            case S_ASSIGN: { E[size_t(st.dst)] = E[size_t(st.a)]; c.count(st.dst == st.a ? "script_self_assignments" : "script_assignments"); break; }
            case S_CLEAR: { F[size_t(st.forest)]->removeAllComputeTableEntries(); c.count("script_cache_clears"); break; }
            case S_GC: { if (compute_table::removeStalesFromMonolithic()) c.count("script_remove_stales"); break; }
            case S_CHURN: {
                forest* f = F[size_t(st.forest)]; const FSpec& ff = fs[size_t(st.forest)];
                std::vector<Val> alpha = alphabet(sr, ff, true, true);
                for (int i = 0; i < st.op; i++) { Table t = randomTable(sr, w, ff, alpha); dd_edge e(f); buildFromTable(w, f, t, e);
                    if (i && sr.chance(1, 2)) { dd_edge g(f); Table t2 = randomTable(sr, w, ff, alpha); buildFromTable(w, f, t2, g); dd_edge h(f); apply(ff.isBool() ? UNION() : MAXIMUM(), e, g, h); } }
                c.count("script_churns"); break;
            }
            case S_FILE: {
                forest* f = F[size_t(st.forest)];
                std::ostringstream oss; { ostream_output out(oss); mdd_writer W(out, f); W.writeRootEdge(E[size_t(st.a)]); W.finish(); }
                std::istringstream iss(oss.str()); istream_input in(iss); mdd_reader R(in, f); dd_edge e(f); R.readRootEdge(e); E[size_t(st.dst)] = e;
                c.count("script_file_roundtrips"); break;
            }
        }
        if (st.dst >= 0 && st.k != S_RELEASE) {
            T[size_t(st.dst)] = st.table; EF[size_t(st.dst)] = st.forest;
            // the step's result denotes the model's table
            Table got = evalAll(w, E[size_t(st.dst)]);
            c.count("points_evaluated", long(got.size()));
            long d = firstDiff(got, st.table, tol);
            if (d >= 0) throw Violation(P + ":script:" + stepName(st.k) + (st.k == S_BIN ? std::string(":") + binName(st.op) : std::string()) + ":wrong-value:" + fs[size_t(st.forest)].kindStr(),
                                        ctx + ": at " + pointStr(w, S.rel, size_t(d)) + " library=" + got[size_t(d)].str() + " model=" + st.table[size_t(d)].str());
            nodeCount = long(E[size_t(st.dst)].getNodeCount());
        }
        if (o.nodeCounts) o.nodeCounts->push_back(nodeCount);
        if (o.expectNodeCounts && stepNo - 1 < o.expectNodeCounts->size() && (*o.expectNodeCounts)[stepNo - 1] != nodeCount)
            throw Violation(P + ":script:node-count-differs-between-configurations:" + (st.dst >= 0 && st.forest >= 0 ? fs[size_t(st.forest)].kindStr() : std::string("?")),
                            ctx + ": node count " + tos(nodeCount) + " here, " + tos((*o.expectNodeCounts)[stepNo - 1]) + " under the reference configuration");
        if (cfg.clearEveryStep) for (forest* f : F) f->removeAllComputeTableEntries();
        // C01: equal tables <=> equal edges, within one forest
        if (o.canon && st.dst >= 0 && st.k != S_RELEASE) {
            for (int s2 = 0; s2 < S.nslots; s2++) {
                if (s2 == st.dst || EF[size_t(s2)] != st.forest) continue;
                bool teq = firstDiff(T[size_t(s2)], st.table) < 0;
                bool eeq = (E[size_t(s2)] == E[size_t(st.dst)]) && (E[size_t(st.dst)] == E[size_t(s2)]) && !(E[size_t(s2)] != E[size_t(st.dst)]);
                RR.eqPairsChecked++; if (teq) RR.eqPairsEqual++;
                if (teq != eeq) throw Violation(P + ":canonicity:" + (teq ? "equal-functions-different-edges" : "different-functions-equal-edges") + ":" + fs[size_t(st.forest)].kindStr(),
                                                ctx + ": slot " + tos(st.dst) + " vs slot " + tos(s2) + " in forest " + tos(st.forest) + " " + fs[size_t(st.forest)].str() + " table " + tableStr(st.table, 24));
            }
        }
        // M4: held edges still denote their tables
        if (o.reevalEvery && stepNo % size_t(o.reevalEvery) == 0) {
            for (int s2 = 0; s2 < S.nslots; s2++) if (EF[size_t(s2)] >= 0)
                expectTable(w, E[size_t(s2)], T[size_t(s2)], tol, P + ":script:held-edge-changed:" + fs[size_t(EF[size_t(s2)])].kindStr(), ctx + ": held slot " + tos(s2));
            c.count("held_edge_reevaluations");
        }
        if (o.auditEvery && stepNo % size_t(o.auditEvery) == 0) auditAll(ctx.c_str());
        RR.steps++;
    }
    auditAll("end of script");
    for (int s2 = 0; s2 < S.nslots; s2++) if (EF[size_t(s2)] >= 0)
        expectTable(w, E[size_t(s2)], T[size_t(s2)], tol, P + ":script:held-edge-changed:" + fs[size_t(EF[size_t(s2)])].kindStr(), "end of script: held slot " + tos(s2));
    // C06: releasing everything and clearing the caches reclaims every node
    if (o.finalLeakCheck) {
        for (auto& e : E) e = dd_edge();
        for (forest* f : F) f->removeAllComputeTableEntries();
        for (size_t i = 0; i < F.size(); i++) {
            long n = F[i]->getCurrentNumNodes();
            if (n != 0) throw Violation(P + ":leak:nodes-left-after-release-and-cache-clear:" + fs[i].kindStr() + ":" + (cfg.del[i] == 0 ? "opt" : cfg.del[i] == 1 ? "pess" : "never"),
                                        tos(n) + " nodes still active in forest " + tos(i) + " " + fs[i].str() + " after all edges were released and all caches cleared (" + S.str() + "; " + cfg.str() + ")");
            c.count("leak_checks");
        }
        auditAll("after final release");
    }
    E.clear();
    if (o.handleMonitor) { checkHandleMonitor(c, P, S.rel ? "rel" : "set"); removeHandleMonitor(); }
    MEDDLY::cleanup();
    c.count("script_steps", RR.steps);
    c.count("canonicity_pairs_checked", RR.eqPairsChecked);
    c.count("canonicity_pairs_equal_functions", RR.eqPairsEqual);
    return RR;
}

} // namespace V
#endif

// C01: canonicity -- within one forest two edges compare equal iff they denote the same function,
// whatever path built them (minterm order, operation chains, copies through other forests,
// exchange files, before or after nodes were reclaimed and handles reused).
// The interpreter's invariant (script.h, ExecOpts::canon) compares, after every step, the new edge with
// every held edge of the same forest: tables equal <=> edges == (checked in both directions and with !=).
#include "script.h"
#include "audit.h"
using namespace V;

static void run(Ctx& c) {
    Rng& r = c.rng;
    ScriptOpts so; so.minSteps = 40; so.maxSteps = c.thorough ? 220 : 110; so.maxSetPoints = 256; so.maxRelStates = 16; so.rebuildBoost = 22;
    Script S = genScript(r, so);
    // second phase: release everything, clear caches, churn so that handles are recycled, then rebuild
    // earlier functions twice each along different routes
    {
        std::vector<std::pair<int, Table>> remembered;   // (forest, table)
        for (auto& st : S.steps) if (st.dst >= 0 && st.k != S_RELEASE && !st.table.empty() && r.chance(1, 4)) remembered.emplace_back(st.forest, st.table);
        Step st;
        for (int s = 0; s < S.nslots; s++) { st = Step(); st.k = S_RELEASE; st.dst = s; S.steps.push_back(st); }
        for (size_t f = 0; f < S.forests.size(); f++) { st = Step(); st.k = S_CLEAR; st.forest = int(f); S.steps.push_back(st); }
        for (size_t f = 0; f < S.forests.size(); f++) { st = Step(); st.k = S_CHURN; st.forest = int(f); st.op = r.range(6, 14); st.rseed = r.next(); S.steps.push_back(st); }
        r.shuffle(remembered);
        int slot = 0;
        for (size_t i = 0; i < remembered.size() && slot + 1 < S.nslots; i++) {
            st = Step(); st.k = S_BUILD; st.dst = slot; st.forest = remembered[i].first; st.table = remembered[i].second; st.rseed = r.next(); S.steps.push_back(st);
            st = Step(); st.k = S_REBUILD; st.a = slot; st.dst = slot + 1; st.forest = remembered[i].first; st.table = remembered[i].second; st.op = 1 + int(r.below(2)); st.rseed = r.next(); S.steps.push_back(st);
            slot += 2;
            c.count("functions_rebuilt_after_churn");
        }
    }
    Config cfg = randomConfig(r, S.forests.size(), true);
    ExecOpts eo; eo.prop = "C01"; eo.auditEvery = 12; eo.canon = true; eo.reevalEvery = 10;
    RunResult rr = runScript(S, cfg, c, eo);
    // EV* forests are not part of the scripts (their values are float products, so two routes may differ in rounding).  With values
    // that are powers of two every product and quotient is exact, and canonicity can be asserted: the same table built from two
    // minterm orders, once with every zero written as a double that underflows to 0 in single precision, must give one edge.
    if (c.idx % 3 == 0) {
        MEDDLY::initialize();
        Shape sh = randomShape(r, 1, 3, 4, 16);
        World w(sh);
        reduction_rule RR[] = {reduction_rule::FULLY_REDUCED, reduction_rule::QUASI_REDUCED, reduction_rule::IDENTITY_REDUCED};
        FSpec fs = mkSpec(true, range_type::REAL, edge_labeling::EVTIMES, RR[r.below(3)]); randomPolicy(r, fs);
        forest* f = makeForest(w.dom, fs);
        static const double P2[] = {0.5, 1, 2, 4, -0.5, -1, -2, -4, 0.25, 8};
        std::vector<dd_edge> held; std::vector<Table> tabs;
        int nt = r.range(2, 5);
        for (int i = 0; i < nt; i++) {
            std::vector<Val> alpha; int k = r.range(1, 4); for (int q = 0; q < k; q++) alpha.push_back(Val::re(P2[r.below(10)]));
            if (r.chance(1, 2)) alpha.push_back(Val::re(0.0));
            Table t = (i > 0 && r.chance(1, 3)) ? tabs[r.below(tabs.size())] : randomTable(r, w, fs, alpha);
            dd_edge e1(f), e2(f);
            phase("EV*:build:" + fs.kindStr());
            buildAlong(r, w, f, fs, t, 0, e1, 0);
            buildAlong(r, w, f, fs, t, 0, e2, 1);
            Tol tl; tl.abs = 1e-12; tl.rel = 1e-6;
            expectTable(w, e1, t, tl, "C01:EV*:wrong-value:" + fs.kindStr(), "EV* table built from minterms");
            expectTable(w, e2, t, tl, "C01:EV*:wrong-value:" + fs.kindStr(), "EV* table built from minterms, zeros written as underflowing doubles");
            if (e1 != e2 || !(e1 == e2)) throw Violation("C01:canonicity:equal-functions-different-edges:" + fs.kindStr(), "the same power-of-two valued table built twice (second time with zeros written as doubles that underflow to 0 in single precision) gives two edges: shape " + sh.str() + " table " + tableStr(t, 32) + " in " + fs.str());
            for (size_t j = 0; j < held.size(); j++) {
                bool teq = firstDiff(tabs[j], t) < 0, eeq = held[j] == e1;
                if (teq != eeq) throw Violation(std::string("C01:canonicity:") + (teq ? "equal-functions-different-edges:" : "different-functions-equal-edges:") + fs.kindStr(), "EV* tables " + tableStr(tabs[j], 24) + " and " + tableStr(t, 24) + " shape " + sh.str() + " in " + fs.str());
                c.count("evtimes_pairs_compared");
            }
            held.push_back(e1); tabs.push_back(t);
        }
        auditForest(f, fs.kindStr(), c, "C01");
        held.clear();
        c.count("evtimes_canonicity_cases");
        MEDDLY::cleanup();
    }
    uint64_t sig = hashstr(S.str().c_str()); for (auto& st : S.steps) sig = sig * 1000003ULL ^ uint64_t(st.k * 31 + st.op) ^ (st.table.empty() ? 0 : tableHash(st.table));
    c.sig = tos(sig);
    c.nontrivial = rr.eqPairsEqual > 0 && rr.eqPairsChecked > rr.eqPairsEqual;   // both directions of the iff were exercised
    for (auto& f : S.forests) c.count("kind:" + f.kindStr());
    c.sample = "{\"script\":" + jstr(S.str()) + ",\"config\":" + jstr(cfg.str()) + ",\"pairs_compared\":" + tos(rr.eqPairsChecked) + ",\"pairs_with_equal_functions\":" + tos(rr.eqPairsEqual) + "}";
}
int main(int argc, char** argv) { return workerMain(argc, argv, "C01", run); }

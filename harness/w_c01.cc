// C01: canonicity -- within one forest two edges compare equal iff they denote the same function,
// whatever path built them (minterm order, operation chains, copies through other forests,
// exchange files, before or after nodes were reclaimed and handles reused).
// The interpreter's invariant (script.h, ExecOpts::canon) compares, after every step, the new edge with
// every held edge of the same forest: tables equal <=> edges == (checked in both directions and with !=).
#include "script.h"
using namespace V;

static void run(Ctx& c) {
    Rng& r = c.rng;
    ScriptOpts so; so.minSteps = 40; so.maxSteps = c.thorough ? 220 : 110; so.maxSetPoints = 256; so.maxRelStates = 16; so.rebuildBoost = 22;
    Script S = genScript(r, so);
    // second phase: release everything, clear caches, churn so that handles are recycled, then rebuild
    // earlier functions twice each along different routes
    {
        std::vector<std::pair<int, Table>> remembered;   // (forest, table)
        for (auto& st : S.steps) if (st.dst >= 0 && st.k != S_RELEASE && !st.table.empty() && r.chance(1, 4)) remembered.emplace_back(st.forest, st.table);
        Step st;
        for (int s = 0; s < S.nslots; s++) { st = Step(); st.k = S_RELEASE; st.dst = s; S.steps.push_back(st); }
        for (size_t f = 0; f < S.forests.size(); f++) { st = Step(); st.k = S_CLEAR; st.forest = int(f); S.steps.push_back(st); }
        for (size_t f = 0; f < S.forests.size(); f++) { st = Step(); st.k = S_CHURN; st.forest = int(f); st.op = r.range(6, 14); st.rseed = r.next(); S.steps.push_back(st); }
        r.shuffle(remembered);
        int slot = 0;
        for (size_t i = 0; i < remembered.size() && slot + 1 < S.nslots; i++) {
            st = Step(); st.k = S_BUILD; st.dst = slot; st.forest = remembered[i].first; st.table = remembered[i].second; st.rseed = r.next(); S.steps.push_back(st);
            st = Step(); st.k = S_REBUILD; st.a = slot; st.dst = slot + 1; st.forest = remembered[i].first; st.table = remembered[i].second; st.op = 1 + int(r.below(2)); st.rseed = r.next(); S.steps.push_back(st);
            slot += 2;
            c.count("functions_rebuilt_after_churn");
        }
    }
    Config cfg = randomConfig(r, S.forests.size(), true);
    ExecOpts eo; eo.prop = "C01"; eo.auditEvery = 12; eo.canon = true; eo.reevalEvery = 10;
    RunResult rr = runScript(S, cfg, c, eo);
    uint64_t sig = hashstr(S.str().c_str()); for (auto& st : S.steps) sig = sig * 1000003ULL ^ uint64_t(st.k * 31 + st.op) ^ (st.table.empty() ? 0 : tableHash(st.table));
    c.sig = tos(sig);
    c.nontrivial = rr.eqPairsEqual > 0 && rr.eqPairsChecked > rr.eqPairsEqual;   // both directions of the iff were exercised
    for (auto& f : S.forests) c.count("kind:" + f.kindStr());
    c.sample = "{\"script\":" + jstr(S.str()) + ",\"config\":" + jstr(cfg.str()) + ",\"pairs_compared\":" + tos(rr.eqPairsChecked) + ",\"pairs_with_equal_functions\":" + tos(rr.eqPairsEqual) + "}";
}
int main(int argc, char** argv) { return workerMain(argc, argv, "C01", run); }

// C20: saturation over a partitioned relation (pregen_relation by events / by levels with every
// splitting option) equals reachability over the union of the events.
#include "audit.h"
#include "opsmodel.h"
#include "relmodel.h"
#include "sat_relations.h"
#include "oper_satur.h"
using namespace V;

static const char* splitName(int s) {
    static const char* n[] = {"by-events", "levels:None", "levels:SplitOnly", "levels:SplitSubtract", "levels:SplitSubtractAll", "levels:MonolithicSplit"};
    return n[s];
}

static void run(Ctx& c) {
    Rng& r = c.rng;
    Shape sh = randomShape(r, 1, 5, 4, 64);
    MEDDLY::initialize();
    World w(sh);
    const long N = w.N;
    FSpec fset = mkSpec(false, range_type::BOOLEAN, edge_labeling::MULTI_TERMINAL, r.chance(1, 2) ? reduction_rule::FULLY_REDUCED : reduction_rule::QUASI_REDUCED);
    randomPolicy(r, fset);
    FSpec frel = mkSpec(true, range_type::BOOLEAN, edge_labeling::MULTI_TERMINAL, reduction_rule::IDENTITY_REDUCED);
    randomPolicy(r, frel);
    forest* FS = makeForest(w.dom, fset); forest* FR = makeForest(w.dom, frel);
    int reps = r.range(1, 3); if (getenv("C20_ONE")) reps = 1;
    uint64_t sig = 0; bool nontriv = false; std::string sample;
    for (int rep = 0; rep < reps; rep++) {
        int ne = r.range(1, 6);
        std::vector<Table> ets; std::vector<dd_edge> ees; std::string edesc;
        int style = int(r.below(4));   // 3 = mixed
        for (int i = 0; i < ne; i++) {
            Event e = randomEvent(r, sh, style == 3 ? int(r.below(3)) : style);
            Table t = eventTable(w, e);
            if (r.chance(1, 12) && i > 0) t = ets[r.below(ets.size())];   // duplicate event
            dd_edge ee(FR); buildChecked(w, FR, frel, t, ee, "C20");
            ets.push_back(t); ees.push_back(ee);
            if (edesc.size() < 400) edesc += eventStr(e, sh) + " ";
        }
        Table tu = unionTables(ets, size_t(N * N));
        std::vector<bool> init(size_t(N), false);
        int ninit = r.chance(1, 12) ? 0 : r.range(1, 3);
        for (int i = 0; i < ninit; i++) init[size_t(r.below(uint64_t(N)))] = true;
        Table ts(static_cast<size_t>(N)); for (long i = 0; i < N; i++) ts[size_t(i)] = Val::b(init[size_t(i)]);
        dd_edge es(FS); buildChecked(w, FS, fset, ts, es, "C20");
        std::vector<long> dist = bfsDist(N, init, tu, true);
        Table want(static_cast<size_t>(N)); long nreach = 0;
        for (long i = 0; i < N; i++) { want[size_t(i)] = Val::b(dist[size_t(i)] >= 0); if (dist[size_t(i)] >= 0) nreach++; }
        // reference: monolithic reachability over the union, in the same forests
        dd_edge eu(FR); buildChecked(w, FR, frel, tu, eu, "C20 union");
        dd_edge mono(FS);
        applyBin(c, REACHABLE_TRAD_NOFS(true), es, eu, mono);
        expectTable(w, mono, want, EXACT, "C20:REACHABLE_TRAD_NOFS:union:wrong-value", "monolithic reference over the union");
        // every partitioning mode
        std::vector<int> modes = {0, 1, 2, 3, 4, 5};
        r.shuffle(modes);
        int nm = c.thorough ? 6 : r.range(2, 6);
        if (getenv("C20_MODE")) { modes.assign(1, atoi(getenv("C20_MODE"))); nm = 1; }
        for (int mi = 0; mi < nm; mi++) {
            int mode = modes[size_t(mi)];
            std::string kb = std::string("C20:SATURATION_FORWARD:") + splitName(mode) + ":" + shortNameOf(fset.rr);
            std::string ctx = kb + " shape " + sh.str() + " events " + edesc + " init=" + tableStr(ts, 40) + " forests " + fset.str() + " / " + frel.str();
            phase(kb.substr(4));
            pregen_relation* pr = (mode == 0) ? new pregen_relation(FR, unsigned(ne)) : new pregen_relation(FR);
            for (int i = 0; i < ne; i++) pr->addToRelation(ees[size_t(i)]);
            switch (mode) {
                case 0: case 1: pr->finalize(pregen_relation::None); break;
                case 2: pr->finalize(pregen_relation::SplitOnly); break;
                case 3: pr->finalize(pregen_relation::SplitSubtract); break;
                case 4: pr->finalize(pregen_relation::SplitSubtractAll); break;
                default: pr->finalize(pregen_relation::MonolithicSplit); break;
            }
            saturation_operation* sat = SATURATION_FORWARD(FS, pr, FS);
            if (!sat) { c.count("combination_not_offered"); continue; }
            dd_edge out(FS);
            sat->compute(es, out);
            Table got = evalAll(w, out);
            c.count("points_evaluated", long(got.size()));
            long missing = 0, extra = 0, first = -1;
            for (long i = 0; i < N; i++) { bool g = got[size_t(i)].truthy(), wv = want[size_t(i)].truthy(); if (g != wv) { if (wv) missing++; else extra++; if (first < 0) first = i; } }
            if (first >= 0) throw Violation(kb + (missing ? ":missing-states" : ":extra-states"), ctx + ": " + tos(missing) + " missing, " + tos(extra) + " extra; first at " + pointStr(w, false, size_t(first)));
            if (out != mono) throw Violation(kb + ":edge-differs-from-monolithic", ctx + ": same function as REACHABLE_TRAD_NOFS on the union but a different edge");
            expectTable(w, es, ts, EXACT, kb + ":operand-changed", ctx);
            for (int i = 0; i < ne; i++) expectTable(w, ees[size_t(i)], ets[size_t(i)], EXACT, kb + ":event-changed", ctx);
            c.count(std::string("runs_") + splitName(mode));
            if (nreach > ninit && nreach < N) nontriv = true;
        }
        sig = sig * 1000003ULL ^ tableHash(tu) ^ (tableHash(ts) << 1);
        if (sample.empty()) sample = "{\"shape\":" + jstr(sh.str()) + ",\"set_forest\":" + jstr(fset.str()) + ",\"events\":" + jstr(edesc) + ",\"init\":" + jstr(tableStr(ts, 24)) + "}";
        if (style == 2) c.count("cases_all_events_top_unchanged");
    }
    c.nontrivial = nontriv;
    c.sig = tos(sig ^ hashstr(sh.str().c_str()) ^ hashstr(fset.str().c_str()));
    c.sample = sample.empty() ? "{}" : sample;
    // the operations registered with the forests are destroyed by cleanup()
    AuditOpts ao; ao.refcounts = false;   // saturation operations keep unregistered references (explorers) alive until destroyed
    auditForest(FS, fset.kindStr(), c, "C20", ao); auditForest(FR, frel.kindStr(), c, "C20", ao);
    MEDDLY::cleanup();
}

int main(int argc, char** argv) { return workerMain(argc, argv, "C20", run); }

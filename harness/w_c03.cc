// C03: functions built from minterms, constants and variables evaluate as specified.
// Oracle: independent matcher over explicit minterm descriptions (model), compared with
// dd_edge::evaluate at EVERY assignment of the domain.
#include "audit.h"
using namespace V;

struct MMinterm {
    std::vector<int> from, to;   // [1..n]; from: -1 = don't care; to: -1 don't care, -2 don't change
    Val value;
};

static bool mmatches(const MMinterm& m, bool rel, const std::vector<int>& a, const std::vector<int>& b, int n) {
    for (int v = 1; v <= n; v++) {
        if (m.from[size_t(v)] >= 0 && m.from[size_t(v)] != a[size_t(v)]) return false;
        if (rel) {
            int t = m.to[size_t(v)];
            if (t >= 0 && t != b[size_t(v)]) return false;
            if (t == -2 && b[size_t(v)] != a[size_t(v)]) return false;
        }
    }
    return true;
}

static std::string mmStr(const MMinterm& m, bool rel, int n) {
    std::string s = "<";
    for (int v = n; v >= 1; v--) {
        int f = m.from[size_t(v)];
        s += (f == -1 ? std::string("x") : tos(f));
        if (rel) { int t = m.to[size_t(v)]; s += "->"; s += (t == -1 ? std::string("x") : t == -2 ? std::string("i") : tos(t)); }
        if (v > 1) s += ",";
    }
    return s + ":" + m.value.str() + ">";
}

static MMinterm randomMM(Rng& r, const Shape& sh, bool rel, int style) {
    MMinterm m; int n = sh.n();
    m.from.assign(size_t(n + 1), -1); m.to.assign(size_t(n + 1), -1);
    for (int v = 1; v <= n; v++) {
        // style 0: mostly fixed; 1: mixed; 2: mostly free
        int pf = style == 0 ? 9 : style == 1 ? 5 : 2;
        if (r.chance(pf, 10)) m.from[size_t(v)] = r.range(0, sh.sizes[size_t(v)] - 1);
        if (rel) {
            int k = int(r.below(10));
            if (k < pf) m.to[size_t(v)] = r.range(0, sh.sizes[size_t(v)] - 1);
            else if (k < pf + (10 - pf) / 2 + 1) m.to[size_t(v)] = -2;
            else m.to[size_t(v)] = -1;
        }
    }
    return m;
}

static std::vector<int> g_levelOf;   // minterm positions are levels; level of variable v in the forest under test
static void fillLib(const MMinterm& mm, bool rel, int n, minterm& m) {
    for (int v = 1; v <= n; v++) {
        const unsigned lv = unsigned(g_levelOf[size_t(v)]);
        int f = mm.from[size_t(v)] == -1 ? DONT_CARE : mm.from[size_t(v)];
        if (!rel) m.setVar(lv, f);
        else {
            int t = mm.to[size_t(v)] == -1 ? DONT_CARE : mm.to[size_t(v)] == -2 ? DONT_CHANGE : mm.to[size_t(v)];
            m.setVars(lv, f, t);
        }
    }
    m.setValue(toRV(mm.value));
}

static Val randomValue(Rng& r, const FSpec& fs, const std::vector<Val>& alpha) {
    // includes the transparent value itself and zero/false
    int k = int(r.below(10));
    if (fs.isBool()) return Val::b(k < 8);
    if (k == 0) return fs.deflt().isInf() ? (fs.isEVP() ? Val::inf() : Val::in(0)) : fs.deflt();
    if (k == 1) return fs.isReal() ? Val::re(0) : Val::in(0);
    if (k == 2 && fs.isEVP()) return Val::inf();
    return alpha[r.below(alpha.size())];
}

static void run(Ctx& c) {
    Rng& r = c.rng;
    bool rel = r.chance(1, 2);
    Shape sh = rel ? randomShapeW(r, 1, 4, 4, 36) : randomShapeW(r, 1, 5, 5, 1024);
    if (sh.sizes.size() > 1 && *std::max_element(sh.sizes.begin(), sh.sizes.end()) >= 10) c.count("wide_variable_shapes");
    std::vector<FSpec> kinds = allKinds(rel);
    FSpec fs = kinds[r.below(kinds.size())];
    randomPolicy(r, fs);
    Tol tol = tolFor(fs);
    if (fs.isEVT()) { tol.abs = 1e-12; tol.rel = 3e-5; }

    MEDDLY::initialize();
    World w(sh);
    forest* f = makeForest(w.dom, fs);
    int n = sh.n();
    // one case in four: the forest has a random variable order (construction and evaluation must not depend on it)
    if (n >= 2 && (fs.isMT() || (!rel && fs.isEVP())) && r.chance(1, 4)) {
        std::vector<int> l2v(size_t(n + 1), 0), perm; for (int i = 1; i <= n; i++) perm.push_back(i);
        r.shuffle(perm); for (int i = 1; i <= n; i++) l2v[size_t(i)] = perm[size_t(i - 1)];
        try { f->reorderVariables(l2v.data()); c.count("cases_in_reordered_forest"); }
        catch (MEDDLY::error& e) { if (e.getCode() != error::NOT_IMPLEMENTED) throw; }
    }
    g_levelOf.assign(size_t(n + 1), 0);
    for (int i = 1; i <= n; i++) g_levelOf[size_t(f->getVarByLevel(i))] = i;
    std::vector<Val> alpha = alphabet(r, fs, true, false, true);   // includes values below the terminal precision (known class for rel/MT/real/IR)
    // EV*: doubles that are non-zero but underflow to 0 in single precision (edge values are floats) are the value 0
    if (fs.isEVT() && r.chance(1, 3)) { static const double UF[] = {1e-60, 1e-46, 4.9e-324}; alpha.push_back(Val::re(UF[r.below(3)])); c.count("cases_with_underflowing_evtimes_values"); }
    std::string sampleOps;
    uint64_t sig = 0;
    int nsub = r.range(3, 8);
    std::vector<int> a, b;

    for (int sub = 0; sub < nsub; sub++) {
        int what = int(r.below(10));
        dd_edge e(f);
        Table expect(size_t(w.tableSize(rel)));
        std::string desc;
        std::string keyop;
        std::vector<Val> usedValues;
        if (what < 3) {
            // ---- single minterm with default --------------------------------------------
            keyop = "minterm.buildFunction";
            MMinterm mm = randomMM(r, sh, rel, int(r.below(3)));
            mm.value = randomValue(r, fs, alpha);
            Val dv = randomValue(r, fs, alpha);
            if (fs.isEVT() && r.chance(1,2)) dv = Val::re(0);
            minterm m(f);
            fillLib(mm, rel, n, m);
            desc = "buildFunction " + mmStr(mm, rel, n) + " default=" + dv.str();
            usedValues.push_back(mm.value); usedValues.push_back(dv);
            m.buildFunction(toRV(dv), e);
            for (size_t i = 0; i < expect.size(); i++) {
                if (!rel) { sh.decode(long(i), a); b = a; } else { sh.decode(long(i) / w.N, a); sh.decode(long(i) % w.N, b); }
                expect[i] = mmatches(mm, rel, a, b, n) ? mm.value : dv;
            }
            c.count("single_minterm");
            if (valEq(mm.value, fs.deflt())) c.count("single_minterm_value_is_transparent");
        } else if (what < 8) {
            // ---- collection, max or min -------------------------------------------------
            bool useMin = r.chance(1, 2);
            keyop = useMin ? "minterm_coll.buildFunctionMin" : "minterm_coll.buildFunctionMax";
            int k = int(r.below(r.chance(1, 4) ? 41 : 9));
            std::vector<MMinterm> mms;
            int style = int(r.below(3));
            for (int i = 0; i < k; i++) {
                MMinterm mm = (i > 0 && r.chance(1, 6)) ? mms[r.below(mms.size())] : randomMM(r, sh, rel, style);
                mm.value = randomValue(r, fs, alpha);
                mms.push_back(mm);
            }
            // default must be <= all values (max) / >= all values (min)
            Val dv;
            if (fs.isBool()) {
                dv = Val::b(useMin);
                // occasionally the other admissible default
                bool all = true; for (auto& m : mms) if (m.value.i != (useMin ? 0 : 1)) all = false;
                if (all && !mms.empty() && r.chance(1, 3)) dv = Val::b(!useMin);
            } else {
                Val ext = fs.deflt();
                bool have = false;
                for (auto& m : mms) { if (!have || (useMin ? valLess(ext, m.value) : valLess(m.value, ext))) ext = m.value; have = true; }
                if (!have) ext = randomValue(r, fs, alpha);
                dv = ext;
                int q = int(r.below(4));
                if (q == 0 && !dv.isInf()) {   // strictly beyond the extreme
                    if (fs.isReal()) dv = Val::re(double(float(dv.r + (useMin ? 1.5 : -1.5))));
                    else dv = Val::in(dv.i + (useMin ? 3 : -3));
                } else if (q == 1 && useMin && fs.isEVP()) dv = Val::inf();
                else if (q == 2 && !fs.deflt().isInf()) {
                    // the transparent value, when admissible
                    Val d0 = fs.deflt();
                    bool ok = true;
                    for (auto& m : mms) if (useMin ? valLess(d0, m.value) : valLess(m.value, d0)) ok = false;
                    if (ok) dv = d0;
                }
            }
            minterm_coll mc(unsigned(std::max(1, k)), f);
            for (auto& mm : mms) { fillLib(mm, rel, n, mc.unused()); mc.pushUnused(); }
            desc = std::string(useMin ? "Min{" : "Max{");
            for (size_t i = 0; i < mms.size() && i < 12; i++) desc += mmStr(mms[i], rel, n);
            if (mms.size() > 12) desc += "...";
            desc += "} default=" + dv.str();
            for (auto& mm : mms) usedValues.push_back(mm.value);
            usedValues.push_back(dv);
            if (useMin) mc.buildFunctionMin(toRV(dv), e); else mc.buildFunctionMax(toRV(dv), e);
            for (size_t i = 0; i < expect.size(); i++) {
                if (!rel) { sh.decode(long(i), a); b = a; } else { sh.decode(long(i) / w.N, a); sh.decode(long(i) % w.N, b); }
                bool any = false; Val best;
                for (auto& mm : mms) if (mmatches(mm, rel, a, b, n)) {
                    if (!any) { best = mm.value; any = true; }
                    else if (useMin ? valLess(mm.value, best) : valLess(best, mm.value)) best = mm.value;
                }
                expect[i] = any ? best : dv;
            }
            c.count("collection");
            c.count("collection_minterms", k);
            if (k == 0) c.count("collection_empty");
        } else if (what == 8) {
            // ---- constant ---------------------------------------------------------------
            keyop = "createConstant";
            Val v = randomValue(r, fs, alpha);
            desc = "createConstant " + v.str();
            usedValues.push_back(v);
            f->createConstant(toRV(v), e);
            for (auto& x : expect) x = v;
            c.count("constant");
        } else {
            // ---- single variable --------------------------------------------------------
            keyop = "createEdgeForVar";
            int v = r.range(1, n);
            bool pr = rel && r.chance(1, 2);
            bool withTerms = r.chance(2, 3) || fs.isBool();
            std::vector<Val> terms(size_t(sh.sizes[size_t(v)]));
            std::vector<rangeval> rterms;
            for (int i = 0; i < sh.sizes[size_t(v)]; i++) {
                if (withTerms) terms[size_t(i)] = randomValue(r, fs, alpha);
                else terms[size_t(i)] = fs.isReal() ? Val::re(i) : Val::in(i);
                rterms.push_back(toRV(terms[size_t(i)]));
            }
            desc = "createEdgeForVar v=" + tos(v) + (pr ? "'" : "") + (withTerms ? " terms=" + tableStr(terms) : " (identity terms)");
            for (auto& x : terms) usedValues.push_back(x);
            if (withTerms) f->createEdgeForVar(v, pr, rterms.data(), e);
            else f->createEdgeForVar(v, pr, e);
            for (size_t i = 0; i < expect.size(); i++) {
                long p = rel ? (pr ? long(i) % w.N : long(i) / w.N) : long(i);
                sh.decode(p, a);
                expect[i] = terms[size_t(a[size_t(v)])];
            }
            c.count("edge_for_var");
        }
        // ---- oracle: evaluate everywhere ------------------------------------------------
        Table got = evalAll(w, e);
        c.count("points_evaluated", long(got.size()));
        long d = firstDiff(got, expect, tol);
        if (d >= 0) {
            throw Violation("C03:" + keyop + ":" + fs.kindStr() + ":wrong-value",
                            desc + " in " + fs.str() + " shape " + sh.str() + ": at " + pointStr(w, rel, size_t(d)) +
                            " library=" + got[size_t(d)].str() + " model=" + expect[size_t(d)].str());
        }
        // the forest is canonical after every construction (C02 clauses), not only at the end
        try { AuditOpts ao; ao.refcounts = false; ao.cachecounts = false; auditForest(f, fs.kindStr(), c, "C03", ao); }
        catch (Violation& v) {
            // known class: MT-real identity-reduced relations with non-zero values below half the terminal precision (they round to 0 inside nodes)
            bool tiny = false;
            if (fs.isMT() && fs.isReal()) for (const Val& x : usedValues) if (x.k == Val::R && x.r != 0 && std::fabs(x.r) < 5e-6) tiny = true;
            std::string clause = v.key.substr(v.key.find(":audit:") + 7); clause = clause.substr(0, clause.rfind(':'));
            if (tiny && rel && fs.rr == reduction_rule::IDENTITY_REDUCED) throw Violation("C03:rel/MT/real/IR:values-below-half-terminal-precision:not-canonical:" + clause, desc + " in " + fs.str() + " shape " + sh.str() + ": " + v.detail);
            throw Violation("C03:" + keyop + ":not-canonical:" + clause + ":" + fs.kindStr(), desc + " in " + fs.str() + " shape " + sh.str() + ": " + v.detail);
        }
        sig = sig * 1000003ULL ^ tableHash(expect) ^ hashstr(keyop.c_str());
        bool nonconst = false; for (auto& x : expect) if (!valEq(x, expect[0])) nonconst = true;
        if (nonconst) c.nontrivial = true;
        if (sampleOps.size() < 600) sampleOps += desc + "; ";
    }
    // the forest left behind by the constructions must be canonical, with exact counts (C02/C06 clauses)
    auditForest(f, fs.kindStr(), c, "C03");   // (per-construction audits above already passed; this adds the exact counts M2/M3)
    c.sig = tos(sig ^ hashstr(fs.str().c_str()) ^ hashstr(sh.str().c_str()));
    c.count(std::string("kind:") + fs.kindStr());
    c.count(std::string("policy:") + fs.polStr());
    c.sample = "{\"forest\":" + jstr(fs.str()) + ",\"shape\":" + jstr(sh.str()) + ",\"ops\":" + jstr(sampleOps) + "}";
    MEDDLY::cleanup();
}

int main(int argc, char** argv) { return workerMain(argc, argv, "C03", run); }

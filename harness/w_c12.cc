// C12: results do not depend on storage, memory-manager or deletion policy.  One script is executed
// under a reference configuration and under further policy combinations (storage x memory manager x
// deletion, all forests switched together or independently); every step's result is compared with the
// model, the node count of every result with the reference configuration, and the forests are audited.
// thorough tier: all 36 uniform combinations per script.
#include "script.h"
using namespace V;

static void run(Ctx& c) {
    Rng& r = c.rng;
    ScriptOpts so; so.minSteps = 30; so.maxSteps = c.thorough ? 150 : 90; so.maxSetPoints = 256; so.maxRelStates = 16;
    so.wideShapes = true;
    if (r.chance(1, 5)) { so.minSteps = 150; so.maxSteps = 300; so.maxSetPoints = 64; }   // heavy churn on a small domain
    Script S = genScript(r, so);
    if (*std::max_element(S.shape.sizes.begin(), S.shape.sizes.end()) >= 10) c.count("wide_variable_shapes");
    size_t nf = S.forests.size();
    Config ref; ref.st.assign(nf, 0); ref.mm.assign(nf, 1); ref.del.assign(nf, 0);   // defaults: either / array+grid / optimistic
    ExecOpts eo; eo.prop = "C12"; eo.auditEvery = 20; eo.canon = true; eo.reevalEvery = 15;
    std::vector<long> refCounts; eo.nodeCounts = &refCounts;
    runScript(S, ref, c, eo);
    c.count("configurations_run");
    eo.nodeCounts = nullptr; eo.expectNodeCounts = &refCounts;
    std::vector<Config> cfgs;
    if (c.thorough) { for (int st = 0; st < 3; st++) for (int mm = 0; mm < 4; mm++) for (int del = 0; del < 3; del++) { if (st == 0 && mm == 1 && del == 0) continue; Config k = ref; k.st.assign(nf, st); k.mm.assign(nf, mm); k.del.assign(nf, del); cfgs.push_back(k); } }
    else {
        int n = r.range(3, 6);
        for (int i = 0; i < n; i++) { Config k = ref; if (r.chance(1, 2)) { int st = int(r.below(3)), mm = int(r.below(4)), del = int(r.below(3)); k.st.assign(nf, st); k.mm.assign(nf, mm); k.del.assign(nf, del); } else k = randomConfig(r, nf, false); cfgs.push_back(k); }
    }
    for (const Config& k : cfgs) {
        runScript(S, k, c, eo);
        c.count("configurations_run");
        for (size_t i = 0; i < nf; i++) { c.count("storage:" + tos(k.st[i])); c.count(std::string("memman:") + mmName(k.mm[i])); c.count("deletion:" + tos(k.del[i])); }
    }
    uint64_t sig = hashstr(S.str().c_str()); for (auto& st : S.steps) sig = sig * 1000003ULL ^ uint64_t(st.k * 31 + st.op) ^ (st.table.empty() ? 0 : tableHash(st.table));
    c.sig = tos(sig);
    c.nontrivial = S.steps.size() >= 30;
    c.sample = "{\"script\":" + jstr(S.str()) + ",\"configurations\":" + tos(cfgs.size() + 1) + ",\"example_config\":" + jstr(cfgs.empty() ? ref.str() : cfgs[0].str()) + "}";
}
int main(int argc, char** argv) { return workerMain(argc, argv, "C12", run); }

// C15: index sets number the members of a set 0..n-1 in lexicographic order; lookup by
// index returns exactly that member and fails outside 0..n-1; stored cardinalities are exact.
#include "audit.h"
#include "opsmodel.h"
using namespace V;

// Sets too large to enumerate (more than 2^31 members): products of per-variable value sets over 11 variables of size 8.
// The rank of a member is computed arithmetically (mixed radix over the sorted allowed values, top variable most significant).
static void hugeCase(Ctx& c) {
    Rng& r = c.rng;
    const int NV = 11, SZ = 8;
    Shape sh; sh.sizes.assign(size_t(NV + 1), SZ); sh.sizes[0] = 0;
    MEDDLY::initialize();
    World w(sh);
    FSpec fsrc = mkSpec(false, range_type::BOOLEAN, edge_labeling::MULTI_TERMINAL, r.chance(1, 2) ? reduction_rule::FULLY_REDUCED : reduction_rule::QUASI_REDUCED);
    randomPolicy(r, fsrc);
    FSpec fix = mkSpec(false, range_type::INTEGER, edge_labeling::INDEX_SET, reduction_rule::FULLY_REDUCED);
    randomPolicy(r, fix);
    forest* FS = makeForest(w.dom, fsrc); forest* FX = makeForest(w.dom, fix);
    const std::string kb = std::string("C15:huge:") + shortNameOf(fsrc.rr);
    // allowed values per variable: mostly everything, the top variable at least 5 values so that n >= 5 * 8^k
    std::vector<std::vector<int>> allowed(size_t(NV + 1));
    int restricted = r.range(0, 3);
    for (int v = 1; v <= NV; v++) for (int x = 0; x < SZ; x++) allowed[size_t(v)].push_back(x);
    // (the conversion does not cache its result for levels the source skips: with a fully-reduced source it enumerates 8^k
    //  paths through k skipped levels -- a cost, not a value.  Fully-reduced sources therefore leave only 3 variables
    //  unrestricted and drop one value from each of the others: 7^8 * 8^3 = 2.95e9 members.)
    if (fsrc.rr == reduction_rule::FULLY_REDUCED) {
        std::vector<int> vs; for (int v = 1; v <= NV; v++) vs.push_back(v); r.shuffle(vs);
        for (int q = 3; q < NV; q++) { auto& A = allowed[size_t(vs[size_t(q)])]; A.erase(A.begin() + long(r.below(A.size()))); }
        restricted = 0;
    }
    for (int q = 0; q < restricted; q++) { int v = r.range(1, NV); auto& A = allowed[size_t(v)]; size_t keepn = size_t(r.range(v == NV ? 5 : 6, 7)); while (A.size() > keepn) A.erase(A.begin() + long(r.below(A.size()))); }
    long n = 1; for (int v = 1; v <= NV; v++) n *= long(allowed[size_t(v)].size());
    dd_edge s(FS); FS->createConstant(rangeval(true), s);
    for (int v = 1; v <= NV; v++) {
        if (int(allowed[size_t(v)].size()) == SZ) continue;
        minterm_coll mc(unsigned(allowed[size_t(v)].size()), FS);
        for (int x : allowed[size_t(v)]) { minterm& m = mc.unused(); for (int u = 1; u <= NV; u++) m.setVar(unsigned(u), u == v ? x : DONT_CARE); m.setValue(rangeval(true)); mc.pushUnused(); }
        dd_edge ev(FS); mc.buildFunctionMax(rangeval(false), ev);
        apply(INTERSECTION, s, ev, s);
    }
    std::string ctx = "product set with |allowed| = ["; for (int v = 1; v <= NV; v++) ctx += tos(allowed[size_t(v)].size()) + (v < NV ? "," : "]"); ctx += ", " + tos(n) + " members, source " + fsrc.str();
    { long card = -1; apply(CARDINALITY, s, card); if (card != n) throw Violation("harness-operand:huge-set", ctx + ": CARDINALITY of the source set is " + tos(card)); }
    dd_edge ix(FX);
    phase("convert:huge");
    if (!applyUn(c, CONVERT_TO_INDEX_SET(), s, ix)) { c.count("conversion_not_offered"); MEDDLY::cleanup(); throw Unsupported("CONVERT_TO_INDEX_SET not offered"); }
    c.count("conversions"); c.count("sets_with_more_than_2^31_members", n > (1L << 31) ? 1 : 0);
    if (ix.getNode() > 0) { long card = FX->getIndexSetCardinality(ix.getNode()); if (card != n) throw Violation(kb + ":root-cardinality", ctx + ": stored cardinality of the root is " + tos(card)); }
    auto memberOf = [&](long i, std::vector<int>& a) { a.assign(size_t(NV + 1), 0); for (int v = 1; v <= NV; v++) { const auto& A = allowed[size_t(v)]; a[size_t(v)] = A[size_t(i % long(A.size()))]; i /= long(A.size()); } };
    std::vector<long> probes = {0, 1, 5, n - 1, n - 2, n / 2, (1L << 31) - 1, 1L << 31, (1L << 31) + 1, (1L << 32) - 1, 1L << 32, (1L << 32) + 12345};
    for (int q = 0; q < 30; q++) probes.push_back(long(r.below(uint64_t(n))));
    minterm m(FX); std::vector<int> a;
    for (long i : probes) {
        if (i < 0 || i >= n) continue;
        phase("getElement:huge");
        for (int v = 1; v <= NV; v++) m.setVar(unsigned(v), 0);
        if (!ix.getElement(i, m)) throw Violation(kb + ":getElement:not-found", ctx + ": getElement(" + tos(i) + ") failed");
        memberOf(i, a);
        for (int v = 1; v <= NV; v++) if (m.from(unsigned(v)) != a[size_t(v)]) {
            std::string got = "(", want = "("; for (int u = NV; u >= 1; u--) { got += tos(m.from(unsigned(u))) + (u > 1 ? "," : ")"); want += tos(a[size_t(u)]) + (u > 1 ? "," : ")"); }
            throw Violation(kb + ":getElement:wrong-member", ctx + ": getElement(" + tos(i) + ") = " + got + ", the member with that index is " + want);
        }
        // and the index function maps that member back to i
        rangeval rv; for (int v = 1; v <= NV; v++) m.setVar(unsigned(v), a[size_t(v)]);
        ix.evaluate(m, rv);
        Val g = fromRV(rv);
        if (!(g.k == Val::I && g.i == i)) throw Violation(kb + ":index-function", ctx + ": the member with index " + tos(i) + " evaluates to " + g.str());
        c.count("lookups_in_range"); c.count("lookups_beyond_2^31", i >= (1L << 31) ? 1 : 0);
    }
    long outs[] = {-1, -2, n, n + 1, n + (1L << 31), -(1L << 31) - 1, -(1L << 32), LONG_MAX};
    for (long i : outs) { phase("getElement:out-of-range"); if (ix.getElement(i, m)) throw Violation(kb + ":getElement:out-of-range-accepted", ctx + ": getElement(" + tos(i) + ") succeeded, valid indexes are 0.." + tos(n - 1)); c.count("lookups_out_of_range"); }
    // a non-member evaluates to +infinity
    if (restricted) for (int v = 1; v <= NV; v++) if (int(allowed[size_t(v)].size()) < SZ) {
        int miss = 0; while (std::find(allowed[size_t(v)].begin(), allowed[size_t(v)].end(), miss) != allowed[size_t(v)].end()) miss++;
        for (int u = 1; u <= NV; u++) m.setVar(unsigned(u), u == v ? miss : allowed[size_t(u)][0]);
        rangeval rv; ix.evaluate(m, rv); if (!fromRV(rv).isInf()) throw Violation(kb + ":index-function", ctx + ": a non-member does not evaluate to +infinity");
        break;
    }
    auditForest(FX, "set/INDEX_SET", c, "C15");
    c.count("huge_cases");
    c.nontrivial = true; c.sig = "huge-" + tos(c.idx);
    c.sample = "{\"huge\":" + jstr(ctx) + "}";
    MEDDLY::cleanup();
}

static void run(Ctx& c) {
    if (c.idx % 16 == 5) { hugeCase(c); return; }
    Rng& r = c.rng;
    Shape sh = randomShapeW(r, 1, 5, 5, 1024);
    if (sh.sizes.size() > 1 && *std::max_element(sh.sizes.begin(), sh.sizes.end()) >= 10) c.count("wide_variable_shapes");
    MEDDLY::initialize();
    World w(sh);
    FSpec fsrc = mkSpec(false, range_type::BOOLEAN, edge_labeling::MULTI_TERMINAL, r.chance(1, 2) ? reduction_rule::FULLY_REDUCED : reduction_rule::QUASI_REDUCED);
    randomPolicy(r, fsrc);
    FSpec fix = mkSpec(false, range_type::INTEGER, edge_labeling::INDEX_SET, reduction_rule::FULLY_REDUCED);
    randomPolicy(r, fix);
    forest* FS = makeForest(w.dom, fsrc);
    forest* FX = makeForest(w.dom, fix);
    int nsets = r.range(1, 5);
    uint64_t sig = 0; bool nontriv = false; std::string desc;
    std::vector<dd_edge> keep;
    for (int it = 0; it < nsets; it++) {
        Table t;
        int k = int(r.below(12));
        std::vector<Val> alpha = {Val::b(true)};
        if (k == 0) t.assign(size_t(w.N), Val::b(false));                 // empty
        else if (k == 1) t.assign(size_t(w.N), Val::b(true));             // full
        else if (k == 2) { t.assign(size_t(w.N), Val::b(false)); t[size_t(r.below(uint64_t(w.N)))] = Val::b(true); }   // singleton
        else t = randomTable(r, w, fsrc, alpha);
        dd_edge s(FS), ix(FX);
        buildChecked(w, FS, fsrc, t, s, "C15");
        if (!applyUn(c, CONVERT_TO_INDEX_SET(), s, ix)) { c.count("conversion_not_offered"); continue; }
        c.count("conversions");
        std::vector<long> members;
        for (long p = 0; p < w.N; p++) if (t[size_t(p)].truthy()) members.push_back(p);
        const long n = long(members.size());
        const std::string kb = std::string("C15:") + shortNameOf(fsrc.rr);
        const std::string ctx = "set " + tableStr(t, 40) + " shape " + sh.str() + " source " + fsrc.str() + " index forest " + fix.polStr();
        // 1. the index function: rank on members, +infinity elsewhere
        Table want(size_t(w.N)); long rank = 0;
        for (long p = 0; p < w.N; p++) want[size_t(p)] = t[size_t(p)].truthy() ? Val::in(rank++) : Val::inf();
        Table got = evalAll(w, ix);
        c.count("points_evaluated", long(got.size()));
        long d = firstDiff(got, want);
        if (d >= 0) throw Violation(kb + ":index-function", ctx + ": at " + pointStr(w, false, size_t(d)) + " index=" + got[size_t(d)].str() + " expected " + want[size_t(d)].str());
        // 2. lookup by index
        minterm m(FX);
        std::vector<int> a;
        std::vector<long> probes;
        for (long i = 0; i < n && i < 40; i++) probes.push_back(i);
        for (int q = 0; q < 20 && n > 40; q++) probes.push_back(long(r.below(uint64_t(n))));
        if (n > 0) probes.push_back(n - 1);
        for (long i : probes) {
            phase("getElement:in-range");
            for (int v = 1; v <= sh.n(); v++) m.setVar(unsigned(v), 0);
            bool ok = ix.getElement(i, m);
            if (!ok) throw Violation(kb + ":getElement:not-found", ctx + ": getElement(" + tos(i) + ") failed, set has " + tos(n) + " members");
            a.assign(size_t(sh.n() + 1), 0);
            for (int v = 1; v <= sh.n(); v++) a[size_t(v)] = m.from(unsigned(v));
            for (int v = 1; v <= sh.n(); v++) if (a[size_t(v)] < 0 || a[size_t(v)] >= sh.sizes[size_t(v)])
                throw Violation(kb + ":getElement:out-of-domain", ctx + ": getElement(" + tos(i) + ") returned a value outside the domain for variable " + tos(v));
            long p = sh.encode(a);
            if (p != members[size_t(i)]) throw Violation(kb + ":getElement:wrong-member", ctx + ": getElement(" + tos(i) + ") = " + pointStr(w, false, size_t(p)) + ", the member with that index is " + pointStr(w, false, size_t(members[size_t(i)])));
            c.count("lookups_in_range");
        }
        long outs[] = {-1, -2, n, n + 1, n + 7, 2 * n + 3, 1000000, -1000000, 2147483647L};
        for (long i : outs) {
            phase("getElement:out-of-range");
            bool ok = ix.getElement(i, m);
            if (ok) throw Violation(kb + ":getElement:out-of-range-accepted", ctx + ": getElement(" + tos(i) + ") succeeded, valid indexes are 0.." + tos(n - 1));
            c.count("lookups_out_of_range");
        }
        if (n == 0) c.count("empty_sets"); if (n == w.N) c.count("full_sets");
        // 3. cardinality of the index set's root
        if (ix.getNode() > 0) {
            long card = FX->getIndexSetCardinality(ix.getNode());
            if (card != n) throw Violation(kb + ":root-cardinality", ctx + ": stored cardinality of the root is " + tos(card) + ", members " + tos(n));
        }
        // 4. converting the same set again gives the identical edge
        { dd_edge ix2(FX); applyUn(c, CONVERT_TO_INDEX_SET(), s, ix2); if (ix2 != ix) throw Violation(kb + ":not-deterministic", ctx + ": converting the same set twice gave different edges"); }
        if (r.chance(1, 2)) keep.push_back(ix);
        if (n > 1 && n < w.N) nontriv = true;
        sig = sig * 1000003ULL ^ tableHash(t);
        if (desc.size() < 200) desc += tableStr(t, 16) + "; ";
    }
    // per-node cardinalities (M1 index-set clause), exact counts
    auditForest(FX, "set/INDEX_SET", c, "C15");
    auditForest(FS, fsrc.kindStr(), c, "C15");
    keep.clear();
    c.nontrivial = nontriv;
    c.sig = tos(sig ^ hashstr(sh.str().c_str()) ^ uint64_t(fsrc.rr == reduction_rule::QUASI_REDUCED));
    c.sample = "{\"shape\":" + jstr(sh.str()) + ",\"source\":" + jstr(fsrc.str()) + ",\"sets\":" + jstr(desc) + "}";
    MEDDLY::cleanup();
}

int main(int argc, char** argv) { return workerMain(argc, argv, "C15", run); }

// C15: index sets number the members of a set 0..n-1 in lexicographic order; lookup by
// index returns exactly that member and fails outside 0..n-1; stored cardinalities are exact.
#include "audit.h"
#include "opsmodel.h"
using namespace V;

static void run(Ctx& c) {
    Rng& r = c.rng;
    Shape sh = randomShape(r, 1, 5, 5, 1024);
    MEDDLY::initialize();
    World w(sh);
    FSpec fsrc = mkSpec(false, range_type::BOOLEAN, edge_labeling::MULTI_TERMINAL, r.chance(1, 2) ? reduction_rule::FULLY_REDUCED : reduction_rule::QUASI_REDUCED);
    randomPolicy(r, fsrc);
    FSpec fix = mkSpec(false, range_type::INTEGER, edge_labeling::INDEX_SET, reduction_rule::FULLY_REDUCED);
    randomPolicy(r, fix);
    forest* FS = makeForest(w.dom, fsrc);
    forest* FX = makeForest(w.dom, fix);
    int nsets = r.range(1, 5);
    uint64_t sig = 0; bool nontriv = false; std::string desc;
    std::vector<dd_edge> keep;
    for (int it = 0; it < nsets; it++) {
        Table t;
        int k = int(r.below(12));
        std::vector<Val> alpha = {Val::b(true)};
        if (k == 0) t.assign(size_t(w.N), Val::b(false));                 // empty
        else if (k == 1) t.assign(size_t(w.N), Val::b(true));             // full
        else if (k == 2) { t.assign(size_t(w.N), Val::b(false)); t[size_t(r.below(uint64_t(w.N)))] = Val::b(true); }   // singleton
        else t = randomTable(r, w, fsrc, alpha);
        dd_edge s(FS), ix(FX);
        buildChecked(w, FS, fsrc, t, s, "C15");
        if (!applyUn(c, CONVERT_TO_INDEX_SET(), s, ix)) { c.count("conversion_not_offered"); continue; }
        c.count("conversions");
        std::vector<long> members;
        for (long p = 0; p < w.N; p++) if (t[size_t(p)].truthy()) members.push_back(p);
        const long n = long(members.size());
        const std::string kb = std::string("C15:") + shortNameOf(fsrc.rr);
        const std::string ctx = "set " + tableStr(t, 40) + " shape " + sh.str() + " source " + fsrc.str() + " index forest " + fix.polStr();
        // 1. the index function: rank on members, +infinity elsewhere
        Table want(size_t(w.N)); long rank = 0;
        for (long p = 0; p < w.N; p++) want[size_t(p)] = t[size_t(p)].truthy() ? Val::in(rank++) : Val::inf();
        Table got = evalAll(w, ix);
        c.count("points_evaluated", long(got.size()));
        long d = firstDiff(got, want);
        if (d >= 0) throw Violation(kb + ":index-function", ctx + ": at " + pointStr(w, false, size_t(d)) + " index=" + got[size_t(d)].str() + " expected " + want[size_t(d)].str());
        // 2. lookup by index
        minterm m(FX);
        std::vector<int> a;
        std::vector<long> probes;
        for (long i = 0; i < n && i < 40; i++) probes.push_back(i);
        for (int q = 0; q < 20 && n > 40; q++) probes.push_back(long(r.below(uint64_t(n))));
        if (n > 0) probes.push_back(n - 1);
        for (long i : probes) {
            phase("getElement:in-range");
            for (int v = 1; v <= sh.n(); v++) m.setVar(unsigned(v), 0);
            bool ok = ix.getElement(i, m);
            if (!ok) throw Violation(kb + ":getElement:not-found", ctx + ": getElement(" + tos(i) + ") failed, set has " + tos(n) + " members");
            a.assign(size_t(sh.n() + 1), 0);
            for (int v = 1; v <= sh.n(); v++) a[size_t(v)] = m.from(unsigned(v));
            for (int v = 1; v <= sh.n(); v++) if (a[size_t(v)] < 0 || a[size_t(v)] >= sh.sizes[size_t(v)])
                throw Violation(kb + ":getElement:out-of-domain", ctx + ": getElement(" + tos(i) + ") returned a value outside the domain for variable " + tos(v));
            long p = sh.encode(a);
            if (p != members[size_t(i)]) throw Violation(kb + ":getElement:wrong-member", ctx + ": getElement(" + tos(i) + ") = " + pointStr(w, false, size_t(p)) + ", the member with that index is " + pointStr(w, false, size_t(members[size_t(i)])));
            c.count("lookups_in_range");
        }
        long outs[] = {-1, -2, n, n + 1, n + 7, 2 * n + 3, 1000000, -1000000, 2147483647L};
        for (long i : outs) {
            phase("getElement:out-of-range");
            bool ok = ix.getElement(i, m);
            if (ok) throw Violation(kb + ":getElement:out-of-range-accepted", ctx + ": getElement(" + tos(i) + ") succeeded, valid indexes are 0.." + tos(n - 1));
            c.count("lookups_out_of_range");
        }
        if (n == 0) c.count("empty_sets"); if (n == w.N) c.count("full_sets");
        // 3. cardinality of the index set's root
        if (ix.getNode() > 0) {
            long card = FX->getIndexSetCardinality(ix.getNode());
            if (card != n) throw Violation(kb + ":root-cardinality", ctx + ": stored cardinality of the root is " + tos(card) + ", members " + tos(n));
        }
        // 4. converting the same set again gives the identical edge
        { dd_edge ix2(FX); applyUn(c, CONVERT_TO_INDEX_SET(), s, ix2); if (ix2 != ix) throw Violation(kb + ":not-deterministic", ctx + ": converting the same set twice gave different edges"); }
        if (r.chance(1, 2)) keep.push_back(ix);
        if (n > 1 && n < w.N) nontriv = true;
        sig = sig * 1000003ULL ^ tableHash(t);
        if (desc.size() < 200) desc += tableStr(t, 16) + "; ";
    }
    // per-node cardinalities (M1 index-set clause), exact counts
    auditForest(FX, "set/INDEX_SET", c, "C15");
    auditForest(FS, fsrc.kindStr(), c, "C15");
    keep.clear();
    c.nontrivial = nontriv;
    c.sig = tos(sig ^ hashstr(sh.str().c_str()) ^ uint64_t(fsrc.rr == reduction_rule::QUASI_REDUCED));
    c.sample = "{\"shape\":" + jstr(sh.str()) + ",\"source\":" + jstr(fsrc.str()) + ",\"sets\":" + jstr(desc) + "}";
    MEDDLY::cleanup();
}

int main(int argc, char** argv) { return workerMain(argc, argv, "C15", run); }

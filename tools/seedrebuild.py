#!/usr/bin/env python3
"""Rebuild seeded/<id>/meta.json 'checks_run' from seeded/<id>/runs.log (written by tools/seedlane.sh): the latest valid run per
check, plus 'silent_before_strengthening' = checks that missed the change in an earlier run and catch it now.
Runs that were invalid are dropped: exit 2 (harness failure) and the runs listed in INVALID (two lanes shared one worktree)."""
import json, glob, os, re
VERIF = os.path.dirname(os.path.dirname(os.path.abspath(__file__)))
INVALID = {"C07-removeStales-preventry": 2, "C01-evtimes-zero-test-on-T": 3, "C01-singleton-size-gt2": 2, "C03-mincoll-continue": 1, "C02-redundant-varsize-vs-levelsize": 2}
for d in sorted(glob.glob(os.path.join(VERIF, "seeded", "*"))):
    mp, lp = os.path.join(d, "meta.json"), os.path.join(d, "runs.log")
    if not os.path.exists(mp): continue
    m = json.load(open(mp)); sid = m["id"]
    runs = m.get("checks_run", {})
    hist = {}
    if os.path.exists(lp):
        lines = [l.rstrip("\n") for l in open(lp)][INVALID.get(sid, 0):]
        for line in lines:
            mo = re.match(r"SEED (\S+) (C\d\d) rc=(\d+) (\d+)s viol=(\d+) \|\s?(.*)", line)
            if not mo or mo.group(1) != sid or int(mo.group(3)) == 2: continue
            prop, rc, secs, viol, keys = mo.group(2), int(mo.group(3)), int(mo.group(4)), int(mo.group(5)), mo.group(6)
            hist.setdefault(prop, []).append({"tier": "quick", "exit": rc, "caught": rc == 1 and viol > 0, "seconds": secs, "first_keys": keys[:300]})
    for prop, h in hist.items(): runs[prop] = h[-1]
    m["checks_run"] = runs
    sb = sorted(p for p, h in hist.items() if h[-1]["caught"] and any(not x["caught"] for x in h[:-1]))
    for p in m.get("silent_before_strengthening", []):
        if p not in sb: sb.append(p)
    m["silent_before_strengthening"] = sorted(set(sb))
    json.dump(m, open(mp, "w"), indent=1)
print("rebuilt")

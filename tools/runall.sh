#!/bin/bash
# usage: tools/runall.sh [quick|thorough] [props...]  -- runs the checks one after another and prints one line per check
tier=${1:-quick}; shift
props=${@:-C01 C02 C03 C04 C05 C06 C07 C08 C09 C10 C11 C12 C13 C14 C15 C16 C17 C18 C19 C20}
cd "$(dirname "$0")/.."
for p in $props; do
  s=$(date +%s)
  out=$(./check $p --tier $tier 2>&1); rc=$?
  e=$(date +%s)
  echo "$p rc=$rc $((e-s))s $(echo "$out" | grep -c '^KNOWN-FINDING') known, $(echo "$out" | grep -c '^VIOLATION') violations | $(echo "$out" | grep "^\[$p" | cut -c1-150)"
  if [ $rc -ne 0 ]; then echo "$out" | grep "key:\|HARNESS" | head -8; fi
done

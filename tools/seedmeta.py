#!/usr/bin/env python3
"""Hand-written one-line descriptions of the confirmed seeded changes (what the change is, what it needs in order to
manifest); merged into seeded/<id>/meta.json.  Run after confirm_seed.sh has created the directory."""
import json, os
VERIF = os.path.dirname(os.path.dirname(os.path.abspath(__file__)))
D = {
 "C06-counter-09bit-32": ("arrays.h: 32-bit branch of isZeroBeforeIncrement forgets `++counts_09bit` at 256",
   "a node past 65535 references, a second one crossing 255 once while the array is 32 bits wide, the first released, then a handle-table resize while the second still has >255"),
 "C06-alast-collapse-over-cached": ("node_headers.cc: a_last collapses over deleted handles that still have cache counts",
   "optimistic/pessimistic deletion, a deleted node still mentioned by a compute-table entry at the end of the handle range, then new nodes"),
 "C07-removeStales-preventry": ("ct_styles.cc removeStales: `preventry` advances past removed entries in a chain",
   "chained compute table, a stale entry removed in the middle of a chain of >= 3 entries, followed by a lookup of a later entry"),
 "C11-card-level-vs-var": ("cardinality.cc: skipped levels scaled by getVariableSize(|L|) instead of getLevelSize(L)",
   "CARDINALITY of a function that skips a level, in a forest whose variable order was changed, with non-uniform variable sizes"),
 "C11-iter-evrel-value": ("dd_edge.cc iterator: edge value at a primed level accumulated from the wrong level",
   "iterating an edge-valued relation whose primed nodes carry non-neutral edge values"),
 "C12-areDuplicates-fullonly": ("simple.cc areDuplicates: 'quick reject' of a full stored node against a sparse-looking unpacked node",
   "FULL_ONLY storage (or full nodes kept by the size rule) and a second construction of the same very sparse node"),
 "C12-heap-current-hole-merge": ("heap_manager.cc: current_hole not redirected when its hole is merged into the left neighbour",
   "HEAP_MANAGER, recycle of a chunk whose right neighbour is the current hole, then a request served from current_hole"),
 "C18-array-growth-ignores-request": ("hole_base.h: growth computes the new size from data_alloc, ignoring the request size",
   "a request larger than the growth increment when the array is nearly full (large nodes / large granularity)"),
 "C18-heap-stale-current-hole": ("heap_manager.cc: current_hole not cleared when that hole is removed from the heap",
   "HEAP_MANAGER, the current hole consumed exactly, then another request"),
 "C01-evtimes-zero-test-on-T": ("forest.cc getEdgeForValue (EV*): zero test on the double argument instead of the stored float",
   "EV* real forest, a constant/terminal value that is non-zero as double but 0 as float (|v| < 1.4e-45) or the reverse rounding"),
 "C01-singleton-size-gt2": ("simple.cc: stored full singleton nodes of size > 2 rejected by isSingletonNode-style test (treated as not singleton)",
   "identity-reduced relation, variable with more than 2 values, singleton primed node stored in full form"),
 "C03-mincoll-continue": ("minterms.cc: minimum over equal minterms `continue` instead of taking the value and stopping",
   "buildFunctionMin/Max with several minterms at the same point carrying different values"),
 "C02-redundant-varsize-vs-levelsize": ("forest.cc createReducedNode: redundancy test compares nnz with getVariableSize(|level|) instead of getLevelSize(level)",
   "primed and unprimed bounds of a variable differ (enlargeVariableBound with prime) or reordered forest with non-uniform sizes"),
 "C08-recFire-lower-events-nextL": ("satur_sets.cc recFire: cache key uses top_at_or_below[nextL] instead of [L]",
   "two saturations in one run with different event sets below a level, same node pair"),
 "C08-satur-graph-restart-diagonals": ("satur_graph.cc _restart: diagonals not cleared",
   "a second reachability call on the same saturation graph after the relation changed"),
 "C04-cross-level-in-wrong-forest": ("cross.cc compute_pr: level of the second operand looked up in the first operand's forest",
   "CROSS with the two operands in two distinct set forests whose handles differ in level"),
 "C04-union-ct-fixed-forest": ("union.cc: compute-table key type of union_pr declares both nodes as belonging to arg1's forest",
   "UNION across two distinct identity-reduced relation forests, operand of the second forest released, stale sweep, handle reused, union again"),
 "C05-mult-identity-shortcut-wrong-forest": ("arith_mult.cc simplifiesToFirstArg: identity-reduced test on the wrong forest",
   "MULTIPLY with operand 1 in a fully/quasi-reduced relation forest and operand 2, value exactly 1 on an identity pattern, in an identity-reduced forest"),
 "C05-range-skipsIdentity": ("maxmin_range.cc skipsIdentity: a skipped primed level is no longer recognised",
   "MIN_RANGE/MAX_RANGE on an identity-reduced relation whose unprimed node has a child skipping the primed level and where 0 is the extreme"),
 "C10-copy-primed-size": ("copy.cc copy_MT relation branch: column loop bounded by the unprimed size",
   "primed bound of a variable larger than the unprimed bound, same-rule copy between two relation forests"),
 "C10-copy-evtimes-bool-trunc": ("copy.cc copy_EV: EV* value truncated to int before the non-zero test for a boolean target",
   "COPY from an EV* relation with values of magnitude < 1 into an MT boolean forest"),
 "C13-mtmdd-swap-scan-lsize": ("mtmdd.cc swapAdjacentVariables: dependency scan of the upper node uses the lower variable's size",
   "MT set forest with non-uniform sizes, larger variable moving down past a smaller one, twice"),
 "C13-reorder-shared-order": ("forest.cc reorderVariables: private copy of the variable order only taken when on the default order",
   "two forests on one domain both reordered to the same non-default order, then only one of them reordered again"),
 "C14-write-long-as-int": ("edge_value.cc write: long edge values printed through the int member",
   "EV+ / index-set forest with an edge value outside the signed 32-bit range written to a file"),
}
for sid, (summary, needs) in D.items():
    p = os.path.join(VERIF, "seeded", sid, "meta.json")
    if not os.path.exists(p): continue
    m = json.load(open(p)); m["summary"] = summary; m["needs_to_manifest"] = needs
    json.dump(m, open(p, "w"), indent=1)
print("ok")

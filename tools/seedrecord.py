#!/usr/bin/env python3
"""usage: tools/seedrecord.py <seed-id> <tier> <output of tools/seedtest.sh ...>  (reads lines 'SEED id Cnn rc=.. ..' from stdin)
Records in seeded/<id>/meta.json which checks were run against the seeded change and whether they caught it."""
import json, sys, os, re
VERIF = os.path.dirname(os.path.dirname(os.path.abspath(__file__)))
sid, tier = sys.argv[1], sys.argv[2]
p = os.path.join(VERIF, "seeded", sid, "meta.json")
m = json.load(open(p))
for line in sys.stdin:
    mo = re.match(r"SEED (\S+) (C\d\d) rc=(\d+) (\d+)s viol=(\d+) \|\s?(.*)", line.strip())
    if not mo or mo.group(1) != sid: continue
    prop, rc, secs, viol, keys = mo.group(2), int(mo.group(3)), int(mo.group(4)), int(mo.group(5)), mo.group(6)
    name = prop if tier == "quick" else prop + "(" + tier + ")"
    m.setdefault("checks_run", {})[name] = {"tier": tier, "exit": rc, "caught": rc == 1 and viol > 0, "seconds": secs, "first_keys": keys[:300]}
json.dump(m, open(p, "w"), indent=1)
print(json.dumps(m["checks_run"], indent=0)[:600])

#!/bin/bash
# usage: tools/seedtest.sh <seed-id> <tier> <props...>
# Applies /verif/seeded/<seed-id>/patch.diff to /repo, runs the given checks, ALWAYS restores /repo.
# Prints one line per check: exit code 1 + VIOLATION = caught.
id=$1; tier=$2; shift 2
cd /verif
if [ -n "$(git -C /repo status --porcelain --untracked-files=no)" ]; then echo "/repo has local modifications; refusing"; exit 2; fi
git -C /repo apply /verif/seeded/$id/patch.diff || { echo "patch does not apply to /repo"; exit 2; }
trap 'git -C /repo checkout -- . ' EXIT
for p in "$@"; do
  s=$(date +%s)
  out=$(./check $p --tier $tier 2>&1); rc=$?
  e=$(date +%s)
  echo "SEED $id $p rc=$rc $((e-s))s viol=$(echo "$out" | grep -c '^VIOLATION') | $(echo "$out" | grep 'key:' | head -3 | cut -c1-160 | tr '\n' ' ')"
done
git -C /repo checkout -- .
trap - EXIT

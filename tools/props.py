# Per-property configuration of ./check: passes (variant, case counts), evidence rule texts.
# Case counts are the bounds (decisions are by case count, never by seconds); "timeout" is the
# generous per-worker-slice watchdog whose firing is "inconclusive".

def P(name, variant, cases, **kw):
    d = {"name": name, "variant": variant, "cases": cases}
    d.update(kw)
    return d

ASSUME_COMMON = [
    "g++ 12 / x86-64 / glibc; library objects compiled from /repo's working tree with -DMEDDLY_VERIF",
    "UBSan checks shift-base and alignment are disabled (benign, fire on the unchanged tree; DESIGN 2.1)",
    "reference model (harness/vcommon.h, per-workload scalar semantics) is trusted",
]

PROPS = {
    "C03": {
        "rule": ("each case: random domain (1-5 vars, sizes 2-5; relations <=36 states), random forest kind x "
                 "storage/memory-manager/deletion policy, 3-8 constructions (single minterm with default, "
                 "collection max/min with don't-care/don't-change/overlaps, constant, variable) each evaluated "
                 "at every assignment against an independent matcher; non-trivial = at least one constructed "
                 "function is non-constant; distinct = hash of (forest spec, shape, expected tables)"),
        "passes": {
            "quick": [P("main", "asan", 1600)],
            "thorough": [P("main", "asan", 40000), P("memcheck", "opt", 640, runner="valgrind", chunk=20, timeout=3600)],
        },
        "require_counters": ["single_minterm", "collection", "constant", "edge_for_var", "points_evaluated"],
        "assumptions": ASSUME_COMMON,
    },
    "C04": {
        "rule": ("cases 0..375 enumerate EXHAUSTIVELY all 16x16 ordered pairs of boolean sets over a 2x2 domain / relations over "
                 "one binary variable for UNION, INTERSECTION, DIFFERENCE (+ all 16 COMPLEMENTs, + CROSS of all set pairs), one case "
                 "per assignment of (operand1, operand2, result) to forests drawn from two distinct forest objects per reduction "
                 "rule, first with cold then with warm compute tables; remaining cases: random non-uniform domains, pools of "
                 "functions spread over 4 (sets) or 6 (relations) forests with random storage/memory/deletion policies, chains of "
                 "6-20 operations whose results re-enter the pool, occasional cache clears; every result evaluated everywhere "
                 "against the pointwise model, operands re-checked (== saved copy and re-evaluated) after each call, forests "
                 "audited (M1-M3).  non-trivial = exhaustive case, or a random case with a result different from both operands; "
                 "distinct = hash of shape and result tables"),
        "passes": {
            "quick": [P("main", "asan", 376 + 700)],
            "thorough": [P("main", "asan", 376 + 30000)],
        },
        "require_counters": ["exhaustive_set_applies", "exhaustive_rel_applies", "exhaustive_cross_applies", "apply_UNION",
                             "apply_COMPLEMENT", "apply_CROSS", "distinct_forests_same_rule", "operand_rechecks"],
        "assumptions": ASSUME_COMMON,
    },
    "C05": {
        "rule": ("each case: random domain (sets <=400 points, relations <=25 states), one value kind (MT int, MT real, EV+ int, "
                 "EV* real), six value forests (two objects per reduction rule, random storage/memory/deletion policies) and one "
                 "boolean forest per rule; 4-10 operations drawn from PLUS MINUS MULTIPLY DIVIDE MODULO MAXIMUM MINIMUM DIST_MIN, the "
                 "six comparisons, four user-defined unary maps, MAX_RANGE/MIN_RANGE, DIST_INC, with operand tables mixing "
                 "negative/zero/positive/(EV+) infinite values, equal operands, constant operands; result evaluated at every point "
                 "against the scalar model (reals: float arithmetic, tolerance lane); deliberate zero divisors / infinite "
                 "subtrahends must raise the documented error code; points whose scalar result is not documented (0*inf, x/inf, "
                 "inf%x, inf/0) are skipped and counted.  non-trivial = some result differs from both operands; distinct = hash of "
                 "operand tables, ops, shape, kind"),
        "passes": {
            "quick": [P("main", "asan", 1600)],
            "thorough": [P("main", "asan", 40000)],
        },
        "require_counters": ["apply_PLUS", "apply_MINUS", "apply_MULTIPLY", "apply_DIVIDE", "apply_MODULO", "apply_MAXIMUM", "apply_MINIMUM",
                             "apply_DIST_MIN", "apply_EQUAL", "apply_LESS_THAN", "apply_user_unary", "apply_RANGE", "apply_DIST_INC",
                             "expected_error_cases"],
        "assumptions": ASSUME_COMMON,
    },
}

# Per-property configuration of ./check: passes (variant, case counts), evidence rule texts.
# Case counts are the bounds (decisions are by case count, never by seconds); "timeout" is the
# generous per-worker-slice watchdog whose firing is "inconclusive".

def P(name, variant, cases, **kw):
    d = {"name": name, "variant": variant, "cases": cases}
    d.update(kw)
    return d

ASSUME_COMMON = [
    "g++ 12 / x86-64 / glibc; library objects compiled from /repo's working tree with -DMEDDLY_VERIF",
    "UBSan checks shift-base and alignment are disabled (benign, fire on the unchanged tree; DESIGN 2.1)",
    "reference model (harness/vcommon.h, per-workload scalar semantics) is trusted",
]

PROPS = {
    "C03": {
        "rule": ("each case: random domain (1-5 vars, sizes 2-5; relations <=36 states), random forest kind x "
                 "storage/memory-manager/deletion policy, 3-8 constructions (single minterm with default, "
                 "collection max/min with don't-care/don't-change/overlaps, constant, variable) each evaluated "
                 "at every assignment against an independent matcher; non-trivial = at least one constructed "
                 "function is non-constant; distinct = hash of (forest spec, shape, expected tables)"),
        "passes": {
            "quick": [P("main", "asan", 1600)],
            "thorough": [P("main", "asan", 40000), P("memcheck", "opt", 640, runner="valgrind", chunk=20, timeout=3600)],
        },
        "require_counters": ["single_minterm", "collection", "constant", "edge_for_var", "points_evaluated"],
        "assumptions": ASSUME_COMMON,
    },
}

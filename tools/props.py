# Per-property configuration of ./check: passes (variant, case counts), evidence rule texts.
# Case counts are the bounds (decisions are by case count, never by seconds); "timeout" is the
# generous per-worker-slice watchdog whose firing is "inconclusive".

def P(name, variant, cases, **kw):
    d = {"name": name, "variant": variant, "cases": cases}
    d.update(kw)
    return d

ASSUME_COMMON = [
    "g++ 12 / x86-64 / glibc; library objects compiled from /repo's working tree with -DMEDDLY_VERIF",
    "UBSan checks shift-base and alignment are disabled (benign, fire on the unchanged tree; DESIGN 2.1)",
    "reference model (harness/vcommon.h, per-workload scalar semantics) is trusted",
]

PROPS = {
    "C03": {
        "rule": ("each case: random domain (1-5 vars, sizes 2-5; relations <=36 states), random forest kind x "
                 "storage/memory-manager/deletion policy, 3-8 constructions (single minterm with default, "
                 "collection max/min with don't-care/don't-change/overlaps, constant, variable) each evaluated "
                 "at every assignment against an independent matcher; non-trivial = at least one constructed "
                 "function is non-constant; distinct = hash of (forest spec, shape, expected tables)"),
        "passes": {
            "quick": [P("main", "asan", 1600)],
            "thorough": [P("main", "asan", 16000), P("memcheck", "opt", 640, runner="valgrind", chunk=20, timeout=3600)],
        },
        "require_counters": ["single_minterm", "collection", "constant", "edge_for_var", "points_evaluated", "wide_variable_shapes"],
        "assumptions": ASSUME_COMMON,
    },
    "C04": {
        "rule": ("cases 0..375 enumerate EXHAUSTIVELY all 16x16 ordered pairs of boolean sets over a 2x2 domain / relations over "
                 "one binary variable for UNION, INTERSECTION, DIFFERENCE (+ all 16 COMPLEMENTs, + CROSS of all set pairs), one case "
                 "per assignment of (operand1, operand2, result) to forests drawn from two distinct forest objects per reduction "
                 "rule, first with cold then with warm compute tables; remaining cases: random non-uniform domains, pools of "
                 "functions spread over 4 (sets) or 6 (relations) forests with random storage/memory/deletion policies, chains of "
                 "6-20 operations whose results re-enter the pool, occasional cache clears; every result evaluated everywhere "
                 "against the pointwise model, operands re-checked (== saved copy and re-evaluated) after each call, forests "
                 "audited (M1-M3).  non-trivial = exhaustive case, or a random case with a result different from both operands; "
                 "distinct = hash of shape and result tables"),
        "passes": {
            "quick": [P("main", "asan", 376 + 700)],
            "thorough": [P("main", "asan", 376 + 8000)],
        },
        "require_counters": ["exhaustive_set_applies", "exhaustive_rel_applies", "exhaustive_cross_applies", "apply_UNION",
                             "apply_COMPLEMENT", "apply_CROSS", "distinct_forests_same_rule", "operand_rechecks"],
        "assumptions": ASSUME_COMMON,
    },
    "C05": {
        "rule": ("each case: random domain (sets <=400 points, relations <=25 states), one value kind (MT int, MT real, EV+ int, "
                 "EV* real), six value forests (two objects per reduction rule, random storage/memory/deletion policies) and one "
                 "boolean forest per rule; 4-10 operations drawn from PLUS MINUS MULTIPLY DIVIDE MODULO MAXIMUM MINIMUM DIST_MIN, the "
                 "six comparisons, four user-defined unary maps, MAX_RANGE/MIN_RANGE, DIST_INC, with operand tables mixing "
                 "negative/zero/positive/(EV+) infinite values, equal operands, constant operands; result evaluated at every point "
                 "against the scalar model (reals: float arithmetic, tolerance lane); deliberate zero divisors / infinite "
                 "subtrahends must raise the documented error code; points whose scalar result is not documented (0*inf, x/inf, "
                 "inf%x, inf/0) are skipped and counted.  non-trivial = some result differs from both operands; distinct = hash of "
                 "operand tables, ops, shape, kind"),
        "passes": {
            "quick": [P("main", "asan", 1600)],
            "thorough": [P("main", "asan", 16000)],
        },
        "require_counters": ["apply_PLUS", "apply_MINUS", "apply_MULTIPLY", "apply_DIVIDE", "apply_MODULO", "apply_MAXIMUM", "apply_MINIMUM",
                             "apply_DIST_MIN", "apply_EQUAL", "apply_LESS_THAN", "apply_user_unary", "apply_RANGE", "apply_DIST_INC",
                             "expected_error_cases"],
        "assumptions": ASSUME_COMMON,
    },
    "C19": {
        "rule": ("cases 0-255: the 2^31 integers of the terminal range in 256 chunks; cases 256-767: the 2^32 float bit patterns "
                 "(NaNs excluded) in 512 chunks; case 768: booleans, 13 integers outside the range (must raise VALUE_OVERFLOW), "
                 "forest-level handleForValue/getValueFromHandle/createConstant+evaluate for MT int/real/bool set and relation "
                 "forests, EV+ infinity and 64-bit edge values, EV* constants, edge_value and rangeval round trips.  thorough tier "
                 "checks EVERY value of every chunk (exhaustive, -O2 build); quick tier checks the first and last 64 values of "
                 "every chunk plus a random-offset stride of 128 (2^24 integers, 2^25 floats) under ASan/UBSan.  Oracle per value: "
                 "decode(encode(v)) == v (floats: == v with the low fraction bit cleared), handle 0 iff the (rounded) value is 0, "
                 "handle never positive; distinctness of handles follows from the round trip.  distinct = chunk"),
        "passes": {
            "quick": [P("main", "asan", 769)],
            "thorough": [P("main", "opt", 769, chunk=8)],
        },
        "exhaustive": {"quick": False, "thorough": True},
        "require_counters": ["integer_values", "float_patterns", "overflow_values", "forest_int_values", "forest_real_values", "evplus_values", "evtimes_values"],
        "assumptions": ASSUME_COMMON + ["sizeof(node_handle)==4 (the 64-bit handle branch of terminal.h is not compiled into this build)"],
        "technique": "runtime monitoring: exhaustive encode/decode sweep with round-trip oracle (thorough), strided sweep under ASan/UBSan (quick)",
    },
    "C18": {
        "rule": ("each case drives one manager style (ORIGINAL_GRID, ARRAY_PLUS_GRID, HEAP_MANAGER, MALLOC_MANAGER, FREELISTS; case index "
                 "mod 5) at one granularity (4 or 8 bytes) directly through requestChunk/recycleChunk/getChunkAddress with 3-7 phases "
                 "(random mix, grow then free every other chunk then refill, drain in random order, same-size churn, grow/shrink waves), "
                 "request sizes from the declared minimum to 12/64/120/700 slots (FREELISTS: 1..15, its maximum); shadow allocator "
                 "M6 asserts after every request: handle non-zero, size >= requested, byte range disjoint from every live chunk; "
                 "before every recycle and at every phase end: every slot of every live chunk still holds its sentinel (MSB rules "
                 "of first/last slot respected); ASan watches the arenas.  non-trivial = more than 50 requests and 50 recycles; "
                 "distinct = (case, request/recycle counts)"),
        "passes": {
            "quick": [P("main", "asan", 400)],
            "thorough": [P("main", "asan", 4000)],
        },
        "require_counters": ["requests", "recycles", "chunk_verifications", "style:ORIGINAL_GRID:g4", "style:ARRAY_PLUS_GRID:g4",
                             "style:HEAP_MANAGER:g4", "style:MALLOC_MANAGER:g4", "style:FREELISTS:g4", "style:ORIGINAL_GRID:g8",
                             "style:ARRAY_PLUS_GRID:g8"],
        "assumptions": ASSUME_COMMON,
        "technique": "runtime monitoring: shadow-allocator monitor (interval map + sentinels) over direct request/recycle histories, under ASan",
    },
    "C10": {
        "rule": ("each case: random domain, ordered pair (source, target) of forest kinds of the same shape drawn from MT bool/int/real, "
                 "EV+ int, EV* real x fully/quasi/identity (incl. same kind+rule in two distinct forest objects), random policies; 2-6 "
                 "random functions are copied source->target (compared at every point with the scalar conversion of the source value), "
                 "copied again (must give the identical edge), copied inside the target forest (identity), and copied back "
                 "(compared pointwise; must be the identical original edge when the model shows no loss and no real rounding is "
                 "involved); EV+ +infinity into non-EV+ targets is not specified by the source and is skipped and counted; both "
                 "forests audited (M1-M3).  non-trivial = some source function is non-constant; distinct = hash(pair, shape, tables)"),
        "passes": {
            "quick": [P("main", "asan", 2000)],
            "thorough": [P("main", "asan", 20000)],
        },
        "require_counters": ["copies", "round_trips", "round_trips_lossless", "points_evaluated", "cases_with_larger_primed_bounds"],
        "assumptions": ASSUME_COMMON,
    },
    "C11": {
        "rule": ("each case: random domain, random forest kind (MT bool/int/real, EV+, EV* x rules) and policies, 1-4 random "
                 "functions; for each: full iteration and 0-3 masked iterations (fixed / free / unchanged positions) must visit "
                 "exactly the non-default assignments matching the mask, once each, in lexicographic order (top variable most "
                 "significant, unprimed before primed), reporting the function value; dereferencing the exhausted iterator must "
                 "raise INVALID_ITERATOR; CARDINALITY as long, double and mpz must equal the count; getNodeCount/getEdgeCount must "
                 "equal an independent walk over unpacked nodes.  non-trivial = a function with more than one and not all points "
                 "non-default; distinct = hash(forest, shape, tables)"),
        "passes": {
            "quick": [P("main", "asan", 2000)],
            "thorough": [P("main", "asan", 20000)],
        },
        "require_counters": ["full_iterations", "masked_iterations", "masks_selecting_proper_subset", "cardinalities", "graph_counts", "wide_variable_shapes"],
        "assumptions": ASSUME_COMMON,
    },
    "C15": {
        "rule": ("one case in 16: a product set over 11 variables of size 8 with 2.9e9 - 8.6e9 members (more than 2^31; ranks computed arithmetically): stored root cardinality, getElement at 0, n-1, around 2^31 and 2^32 and at random indexes, the index function at the returned member, out-of-range indexes beyond 32 bits.  Other cases: "
                 "each case: random domain (<=1024 points), boolean source forest (fully or quasi reduced, random policies), index-set "
                 "forest with random policies, 1-5 sets incl. empty, full, singleton and random; CONVERT_TO_INDEX_SET result evaluated at "
                 "every point against rank-in-lexicographic-order / +infinity; getElement(i) for all (up to 60) valid indexes must "
                 "return the i-th member and must return false for -1, -2, n, n+1, n+7, 2n+3, +-10^6, 2^31-1; stored cardinality of "
                 "the root and (audit M1) of every index-set node equals the member count below it; repeated conversion gives the "
                 "identical edge.  non-trivial = a set with more than one member that is not the full set; distinct = hash(shape, rule, sets)"),
        "passes": {
            "quick": [P("main", "asan", 1500)],
            "thorough": [P("main", "asan", 15000)],
        },
        "require_counters": ["huge_cases", "lookups_beyond_2^31", "conversions", "lookups_in_range", "lookups_out_of_range", "empty_sets", "full_sets", "audit_index_cardinalities", "wide_variable_shapes"],
        "assumptions": ASSUME_COMMON,
    },
    "C09": {
        "rule": ("each case: random domain (<=36 states, 1-4 variables of sizes 2-4), one of five modes: boolean image, MT-integer "
                 "distance image (negative = unreachable, result forest fully reduced as documented), EV+ distance image (+inf = "
                 "unreachable), integer and real vector-matrix / matrix-vector products; relation = union of 1-4 random events "
                 "(guards, constants, non-deterministic choices, +-1 steps, untouched variables -> identity-skipped levels) or a "
                 "random table, in a fully-, quasi- or identity-reduced relation forest; set/vector forests fully or quasi reduced, "
                 "result in the operand's forest or another one; PRE_IMAGE and POST_IMAGE / VM_MULTIPLY and MV_MULTIPLY compared at "
                 "every state with the relational definition; operands re-evaluated; forests audited.  non-trivial = non-empty "
                 "relation / non-zero product; distinct = hash(shape, mode, tables)"),
        "passes": {
            "quick": [P("main", "asan", 2000)],
            "thorough": [P("main", "asan", 20000)],
        },
        "require_counters": ["post_images", "pre_images", "vm_multiplies", "mv_multiplies", "image_mode_bool", "image_mode_mtdist", "image_mode_evplus"],
        "assumptions": ASSUME_COMMON,
    },
    "C08": {
        "rule": ("each case: random domain (<=64 states, 1-5 variables of sizes 2-4), mode boolean / MT-integer distance / EV+ distance; "
                 "relation = union of 1-5 random events (guards, constants, non-deterministic choices, +-1 steps, self loops, dead "
                 "ends, untouched variables, events whose top variable is unchanged) or a random table, held in a fully-, quasi- or "
                 "identity-reduced relation forest (identity in half of the cases); 0-3 (or N/2) initial states, optional distance "
                 "offsets; 1-4 successive relations/initial sets through the SAME forests and operation objects (stale split state), "
                 "occasional cache clears; REACHABLE_TRAD_FS, REACHABLE_TRAD_NOFS, REACHABLE_SATUR forward and backward each compared "
                 "at every state with the explicit closure / shortest distances, and with each other by ==; operands re-evaluated; "
                 "forests audited.  non-trivial = closure strictly between the initial set and the whole space; distinct = hash(shape, config, tables)"),
        "passes": {
            "quick": [P("main", "asan", 1200)],
            "thorough": [P("main", "asan", 12000)],
        },
        "require_counters": ["runs_REACHABLE_TRAD_FS", "runs_REACHABLE_TRAD_NOFS", "runs_REACHABLE_SATUR", "algorithm_agreements", "repeated_calls_same_forests"],
        "assumptions": ASSUME_COMMON,
    },
    "C20": {
        "rule": ("each case: random domain (<=64 states), boolean set forest (fully or quasi reduced) and identity-reduced relation "
                 "forest with random policies; 1-3 rounds in the same forests: 1-6 random events (disjoint / overlapping supports, self "
                 "loops, duplicates, events whose top variable is unchanged), 0-3 initial states; the events are handed to "
                 "pregen_relation by events and by levels with every splittingOption (None, SplitOnly, SplitSubtract, SplitSubtractAll, "
                 "MonolithicSplit; quick tier: 2-6 of the 6 modes per round, thorough: all); SATURATION_FORWARD result compared at "
                 "every state with the explicit closure under the union, and by == with REACHABLE_TRAD_NOFS on the union relation; "
                 "operands and events re-evaluated; forests audited (M1, M3).  non-trivial = closure strictly between init and "
                 "everything; distinct = hash(shape, forests, union relation, init)"),
        "passes": {
            "quick": [P("main", "asan", 1500)],
            "thorough": [P("main", "asan", 12000)],
        },
        "require_counters": ["runs_by-events", "runs_levels:None", "runs_levels:SplitOnly", "runs_levels:SplitSubtract", "runs_levels:SplitSubtractAll",
                             "runs_levels:MonolithicSplit", "cases_all_events_top_unchanged"],
        "assumptions": ASSUME_COMMON + ["relation forest identity-reduced (the rule sat_pregen.cc is written for)"],
    },
    "C14": {
        "rule": ("each case: random domain, random forest kind (MT bool/int/real, EV+, EV* x rules; sets and relations) with random "
                 "policies; 0-6 root edges (random functions, constants = terminal roots, repeated roots, variants sharing sub-graphs) "
                 "written with mdd_writer to an in-memory stream and read back with mdd_reader into (a) the writing forest "
                 "(identical edges required for non-real kinds), (b) a second forest of the same kind with other storage/memory/"
                 "deletion policies that already holds some of the functions, (c) a forest created from the file, (d) a domain created from the file (domain::write / domain::create(input): same variables and bounds required, domain::verify must accept it) and a forest created from the file over that domain; every root evaluated "
                 "at every point (reals: tolerance derived from the writer's print format), root count and order checked, repeats stay "
                 "identical, receiving forests audited (M1 canonical, M2 exact reference counts, M3).  non-trivial = some non-constant "
                 "root; distinct = hash(forest, shape, root tables)"),
        "passes": {
            "quick": [P("main", "asan", 1500)],
            "thorough": [P("main", "asan", 15000)],
        },
        "require_counters": ["files_written", "reads_same-forest", "reads_other-forest", "reads_forest-from-file", "domains_read_back", "reads_domain-and-forest-from-file", "empty_root_lists", "refcounts_checked", "wide_variable_shapes"],
        "assumptions": ASSUME_COMMON,
    },
    "C02": {
        "rule": ("each case: one scripted history (20-70 steps quick, up to 160 thorough) over 2-4 forests of one value kind (MT bool/int/"
                 "real, EV+) plus a boolean forest, sets or relations with every reduction rule, random storage / memory-manager / "
                 "deletion policy per forest and random compute-table style/policy/size; steps: build from minterms, rebuild along "
                 "another route, binary operations, comparisons, complement, copies between forests, edge assignment and release, cache "
                 "clears, stale removal, churn, exchange-file round trips.  After EVERY step the structural audit M1 walks every active "
                 "node of every forest (three unpacked views agree, hashes agree with the packed hash, unique-table lookup returns "
                 "the node, no duplicates, children live and strictly below, rule-specific clauses, edge-value normalisation, node "
                 "count == live nodes == unique-table entries), M2 recounts incoming counts, M3 recounts cache counts, M5 watches "
                 "handle issue/recycle.  non-trivial = more than 20 nodes audited; distinct = hash of the script"),
        "passes": {
            "quick": [P("main", "asan", 700)],
            "thorough": [P("main", "asan", 4000)],
        },
        "require_counters": ["audit_nodes", "audit_primed_nodes", "audit_singleton_edge_checks", "audit_stored_sparse", "audit_stored_full",
                             "refcounts_checked", "cachecount_audits", "script_binops", "script_copies", "script_churns", "handles_reissued", "wide_variable_shapes"],
        "assumptions": ASSUME_COMMON,
    },
    "C01": {
        "rule": ("one case in three additionally: an EV* relation forest with power-of-two values (all products and quotients exact): each table built from two minterm orders, the second time with zeros written as doubles that underflow to 0 in single precision, must give one edge; edges of different tables must differ.  Every case: "
                 "each case: a scripted history (40-110 steps quick, up to 220 thorough; 22% extra 'rebuild an existing function along "
                 "another route' steps: shuffled minterm collections, point-by-point accumulation, two half collections combined) over "
                 "2-4 forests of one value kind with few distinct values, followed by: release everything, clear caches, churn every "
                 "forest so that handles are recycled, rebuild remembered functions twice each.  After every step the new edge is "
                 "compared with every held edge of the same forest: model tables equal <=> edges equal (==, both directions, and "
                 "!=); results of operations, copies through other forests and exchange-file round trips take part; M1 audit "
                 "(unique-table lookup of every active node, hash agreement) every 12 steps.  MT-real values only in the exact lane; "
                 "non-trivial = at least one pair with equal functions AND one with different functions compared; distinct = hash of the script"),
        "passes": {
            "quick": [P("main", "asan", 600)],
            "thorough": [P("main", "asan", 3000)],
        },
        "require_counters": ["evtimes_canonicity_cases", "canonicity_pairs_checked", "canonicity_pairs_equal_functions", "functions_rebuilt_after_churn", "handles_reissued",
                             "script_copies", "script_file_roundtrips"],
        "assumptions": ASSUME_COMMON,
    },
    "C12": {
        "rule": ("each case: one script (30-90 steps; one in five: 150-300 steps of heavy churn on a small domain) executed under the "
                 "default policy (either/array+grid/optimistic) and under 3-6 further policy assignments (quick) or all 35 other uniform "
                 "combinations of storage {either, full-only, sparse-only} x memory manager {original grid, array+grid, malloc, heap} x "
                 "deletion {optimistic, pessimistic, never} (thorough); per step the result equals the model table and its node count "
                 "equals the reference configuration's; held edges re-evaluated; M1-M3 audits every 20 steps and at the end; "
                 "canonicity invariant on; ASan on all (malloc manager: dangling node pointers become use-after-free reports).  "
                 "non-trivial = script of at least 30 steps; distinct = hash of the script"),
        "passes": {
            "quick": [P("main", "asan", 300)],
            "thorough": [P("main", "asan", 1500)],
        },
        "require_counters": ["configurations_run", "memman:orig_grid", "memman:array_grid", "memman:malloc", "memman:heap", "storage:1", "storage:2", "deletion:1", "deletion:2", "wide_variable_shapes"],
        "assumptions": ASSUME_COMMON,
    },
    "C07": {
        "rule": ("each case: one script (60-140 steps; one in four 250-400 steps) with at least one pessimistic and one optimistic "
                 "forest, executed (a) with all caches cleared after every step and (b) under 3-5 (quick) or 13 (thorough: all 4 "
                 "styles x 3 stale policies, + default style at maximum size 1024) compute-table settings; per step: result == model "
                 "table, node count == reference run; M3 recounts every node's cache count against compute_table::"
                 "countAllNodeEntries every 6 steps (handles of deleted-but-cached nodes included); M5 asserts no handle is "
                 "recycled/re-issued with a non-zero cache or incoming count; scripts release operands and results so entries "
                 "outlive their nodes, churn re-issues handles, and the same operations are asked again.  non-trivial = a case in "
                 "which non-zero cache counts were audited and handles were re-issued; distinct = hash of the script"),
        "passes": {
            "quick": [P("main", "asan", 260)],
            "thorough": [P("main", "asan", 1500)],
        },
        "require_counters": ["configurations_run", "cachecount_audits", "cachecounts_nonzero_checked", "cache_entries_on_deleted_handles",
                             "handles_reissued", "ct_style:0", "ct_style:1", "ct_style:2", "ct_style:3", "ct_stale:0", "ct_stale:2", "ct_max:1024"],
        "assumptions": ASSUME_COMMON,
    },
    "C06": {
        "rule": ("7 of 8 cases: an error-free scripted history (30-90 steps quick, up to 200 thorough) over 2-4 forests with random "
                 "optimistic/pessimistic/never deletion, storage and memory-manager policies and random compute-table settings: edge "
                 "copies, assignments incl. self-assignment, releases, operations across forests, cache clears, stale removal, churn, "
                 "file round trips; after EVERY step M2 recounts, for every active node, child pointers + registered dd_edges (guarded "
                 "hook) + unpacked nodes under construction and requires equality with the stored incoming count; M1 requires "
                 "every child of a live node to be live; M3 cache counts; every 4 steps all held edges are re-evaluated; M5 asserts "
                 "handles are recycled / re-issued only with zero counts and counters never underflow; at the end all edges are "
                 "released, caches cleared and getCurrentNumNodes() must be 0 in every forest.  1 of 8 cases: counter-width and "
                 "growth cases -- 300 / 70000 copies of one dd_edge (8->16->32 bit), 300 parent nodes of one node, 300 cache entries on "
                 "one node, waves of thousands of nodes, and mixed cases (one node past 300 or 70000 references, a second past 255, a third small; the first released, the handle table grown past 512 nodes and shrunk again, then the others released; with and without repeated threshold crossings caused by vector re-allocation) -- audited at each plateau and during release in random order.  "
                 "non-trivial = more than 50 incoming counts compared (or a width case); distinct = hash of the script"),
        "passes": {
            "quick": [P("main", "asan", 640)],
            "thorough": [P("main", "asan", 3000)],
        },
        "require_counters": ["refcounts_checked", "leak_checks", "width_cases", "mixed_width_cases", "mixed_width_second_node_passes_255_once_in_32bit_mode", "crossed_8_to_16_bit", "crossed_16_to_32_bit", "cachecount_width_cases",
                             "handles_reissued", "script_assignments", "script_self_assignments", "script_releases", "deletion:pessimistic", "deletion:optimistic", "deletion:never"],
        "assumptions": ASSUME_COMMON + ["histories contain no call that raises an error (C06 excludes error paths)"],
    },
    "C13": {
        "rule": ("each case: random domain of 2-5 variables with non-uniform sizes, an MT set/relation forest (bool/int/real, every "
                 "reduction rule) or an EV+ set forest with random storage/memory/deletion policy, one of the 8 scheduling heuristics, "
                 "VAR or (relations) LEVEL swaps; 1-6 held edges that share sub-graphs, results of earlier operations held too (warm "
                 "compute tables); a sibling forest over the same domain with its own held edges; 1-2 reorderings to uniformly random "
                 "target orders (or back to the identity); afterwards: the forest's level->variable map equals the target, every "
                 "held edge evaluates at every assignment of the renamed variables to its old table, M1-M3 audit passes, rebuilding "
                 "a function from its table gives the identical edge, a further operation gives the model result, and the sibling's "
                 "order, edges (==), node counts and tables are unchanged.  Combinations the library rejects with NOT_IMPLEMENTED "
                 "count as unsupported.  non-trivial = the order actually changed with at least one held edge; distinct = hash(config, shape, tables, orders)"),
        "passes": {
            "quick": [P("main", "asan", 1600)],
            "thorough": [P("main", "asan", 16000)],
        },
        "require_counters": ["reorderings", "heuristic:LOWEST_INVERSION", "heuristic:HIGHEST_INVERSION", "heuristic:SINK_DOWN", "heuristic:BRING_UP",
                             "heuristic:LOWEST_COST", "heuristic:LOWEST_MEMORY", "heuristic:RANDOM", "heuristic:LARC", "swap:VAR", "cases_with_warm_caches"],
        "assumptions": ASSUME_COMMON,
    },
    "C16": {
        "rule": ("each case: two domains, eight forests (MT int x2, MT real, MT bool, EV+ sets; identity-reduced relation and int/bool "
                 "sets over the second domain) with random policies and a dozen held edges; 8-16 (quick) or all 23 (thorough) misuse "
                 "classes in random order: operands/result from different domains (DOMAIN_MISMATCH), set/relation mix and range or "
                 "labeling mismatch (TYPE_MISMATCH), createConstant with an edge of another forest (FOREST_MISMATCH), constants / "
                 "minterm values / a PLUS result outside the terminal range (VALUE_OVERFLOW, the last one deep in the diagram after "
                 "part of the result was built), zero divisor in one deep leaf for DIVIDE and MODULO, and for EV+ DIVIDE a zero divisor under a +infinity numerator inside a row of finite values (DIVIDE_BY_ZERO), infinite "
                 "subtrahend (SUBTRACT_INFINITY), dereferencing an exhausted iterator (INVALID_ITERATOR), evaluating with a minterm of "
                 "another domain or shape (DOMAIN_MISMATCH), and classes for which only 'some MEDDLY::error' is required (getElement on "
                 "a non-index set, edges of a destroyed forest as operand / result / evaluated, CROSS of relations, MAX_RANGE with the "
                 "wrong result type, variable out of range, index-set conversion into a non-index forest).  After every provoked "
                 "error: every held edge re-evaluated everywhere, M1 audit of every forest, a legitimate operation per forest "
                 "compared with the model; ASan/UBSan watch the unwinding.  non-trivial = every case; distinct = hash(domains, class order, tables)"),
        "passes": {
            "quick": [P("main", "asan", 500)],
            "thorough": [P("main", "asan", 5000)],
        },
        "require_counters": ["errors_provoked", "aftermath_checks", "followup_operations", "class:DIVIDE:zero-divisor-deep-in-the-diagram",
                             "class:edge-of-a-destroyed-forest:operand", "class:iterator:dereference-after-the-end", "class:binary:operands-from-different-domains"],
        "assumptions": ASSUME_COMMON + ["reference counts are not asserted after a provoked error (the property does not promise leak-freedom on error paths)"],
    },
    "C17": {
        "rule": ("each case: 2-4 initialize/cleanup cycles; per cycle 15-45 (thorough: up to 90) random actions: create domain (up to 4), "
                 "create forest of any set kind and policy, build / copy / destroy edges (heap-allocated, so they can outlive anything), "
                 "create / advance / destroy iterators, operations and COPYs that span two forests of one domain (populating compute "
                 "tables with entries that mention both), operations across domains (must be rejected), destroy a forest, destroy a "
                 "domain with all its forests; then cleanup() with edges still alive, which are destroyed before or after cleanup at "
                 "random.  After every destruction: edges of the destroyed forest report getForest()==nullptr and using one in "
                 "COPY raises an error; getForestWithID forgets the forest; all surviving edges re-evaluated everywhere; surviving "
                 "forests pass M1-M3; later operations still equal the model; forest identifiers within one initialisation are "
                 "pairwise distinct; every operation object the harness saw built for a destroyed forest must be gone from the "
                 "library's operation registry (getOpWithID) right after the destruction; half of the orphaned edges are attached "
                 "to a surviving forest, must then carry node 0 (no alias of a node of that forest), the forest is audited and the "
                 "edge detached again; ASan watches every teardown order; a second pass runs the same cases on the uninstrumented "
                 "build, where freed forests' addresses are reused by later forests (ASan's quarantine prevents that).  "
                 "Iterators are destroyed before their forest.  "
                 "non-trivial = every case; distinct = hash of the action trace"),
        "passes": {
            "quick": [P("main", "asan", 800), P("reuse", "opt", 800)],
            "thorough": [P("main", "asan", 8000), P("reuse", "opt", 8000)],
        },
        "require_counters": ["initializations", "cleanups", "forests_destroyed", "domains_destroyed", "orphan_edges_checked", "orphan_edge_uses_rejected", "operations_checked_gone", "orphans_reattached",
                             "operations_spanning_two_forests", "edges_destroyed_after_cleanup", "iterators_created", "cross_domain_rejections"],
        "assumptions": ASSUME_COMMON + ["an iterator is destroyed before the forest it iterates over"],
    },
}

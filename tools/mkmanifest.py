#!/usr/bin/env python3
"""Regenerate /verif/MANIFEST.json from tools/props.py (claimed = properties configured there)."""
import json, os, sys
HERE = os.path.dirname(os.path.abspath(__file__))
sys.path.insert(0, HERE)
from props import PROPS
VERIF = os.path.dirname(HERE)
props = [json.loads(l) for l in open(os.path.join(VERIF, "properties.jsonl"))]

TECH = {
    "default": "runtime monitoring: generated workloads on the real library under ASan+UBSan, results compared pointwise with an explicit reference model, live forests audited by structural/refcount/cache-count monitors",
}
m = {
    "version": 1,
    "setup_cmd": "./check --setup",
    "hooks": {
        "guard": "MEDDLY_VERIF",
        "enable": "checks compile every src/**/*.cc listed in /repo/src/Makefile.am with -DMEDDLY_VERIF into /verif/.build/<variant>/ (build/build.mk); the repo's own autotools build is never touched",
        "baseline_off_cmd": "cd /repo && make -j16 && make -k check",
        "source_commits": ["0f62c77", "cf6162a"],
        "add_only": True,
    },
    "engines": [{
        "name": "check", "path": "/verif/check", "serves_properties": sorted(PROPS.keys()),
        "kind_free_text": "python driver: builds sanitizer variants of the library from /repo's working tree, runs the C++ workload+monitor binaries harness/w_*.cc in 16 processes, triages sanitizer/valgrind reports, matches known_findings.json, writes evidence",
    }],
    "checks": [], "not_applicable": [],
    "notes": "DESIGN.md describes approach, monitors, known findings and seeded-change results.",
}
for p in props:
    pid = p["id"]
    if pid in PROPS:
        cfg = PROPS[pid]
        m["checks"].append({
            "property_id": pid,
            "quick_cmd": "./check %s --tier quick" % pid,
            "thorough_cmd": "./check %s --tier thorough" % pid,
            "evidence_file": "/verif/evidence/%s.json" % pid,
            "replay_cmd_template": "./check %s --replay {path}" % pid,
            "engine": "check",
            "level_claimed": {
                "category": cfg.get("level", "exploration"),
                "text": cfg.get("level_text", "held on the K generated executions reported in the evidence file (counts of cases, distinct non-trivial cases and monitor observations); not a proof. " + cfg["rule"][:400]),
                "design_ref": "DESIGN.md section 4 (%s)" % pid,
            },
            "level_note": cfg.get("level_note", "trusted: reference model in harness/ (scalar semantics transcribed from docs/tests), g++ 12 ASan/UBSan runtime, bounds of DESIGN.md section 5; UBSan shift-base/alignment off"),
            "technique": cfg.get("technique", TECH["default"]),
        })
    else:
        m["not_applicable"].append({"property_id": pid, "reason": "check under construction in this round (runtime monitoring applies; see DESIGN.md section 4)"})
json.dump(m, open(os.path.join(VERIF, "MANIFEST.json"), "w"), indent=1)
print("claimed:", [c["property_id"] for c in m["checks"]])
print("not_applicable:", [c["property_id"] for c in m["not_applicable"]])

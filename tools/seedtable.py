#!/usr/bin/env python3
"""Regenerate the seeded-change table of DESIGN.md (between the SEEDTABLE markers) from seeded/*/meta.json."""
import json, glob, os, re
VERIF = os.path.dirname(os.path.dirname(os.path.abspath(__file__)))
rows = []
for f in sorted(glob.glob(os.path.join(VERIF, "seeded", "*", "meta.json"))):
    m = json.load(open(f))
    runs = m.get("checks_run", {})
    caught = [k for k, v in runs.items() if v.get("caught")]
    missed = [k for k, v in runs.items() if not v.get("caught")]
    rows.append("| `%s` | %s | %s | %s | %s | %s | %s |" % (m["id"], m["property"], m.get("summary", "").replace("|", "/"), m.get("needs_to_manifest", "").replace("|", "/")[:200],
                ", ".join(sorted(caught)) or "-", ", ".join(sorted(missed)) or "-", ", ".join(m.get("silent_before_strengthening", [])) or "-"))
table = "| seeded change | breaks | what it changes | needs to manifest | caught by (quick tier) | run but silent | missed at first, caught after strengthening |\n|---|---|---|---|---|---|---|\n" + "\n".join(rows) if rows else "(no seeded change confirmed yet)"
p = os.path.join(VERIF, "DESIGN.md")
s = open(p).read()
s = re.sub(r"<!-- SEEDTABLE -->.*?<!-- /SEEDTABLE -->", "<!-- SEEDTABLE -->\n" + table + "\n<!-- /SEEDTABLE -->", s, flags=re.S)
open(p, "w").write(s)
print(len(rows), "seeded changes in table")

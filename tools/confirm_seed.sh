#!/bin/bash
# usage: tools/confirm_seed.sh <build-worktree> <dir-with-patch.diff-and-demo.cc> <seed-id> <property>
# Confirms, in the scratch worktree, a seeded change delivered in <dir> (patch.diff, demo.cc):
#   with the patch : library builds, the project's test suite passes, demo FAILS
#   without        : demo PASSES
# and, if all of that holds, stores it as /verif/seeded/<seed-id>/ (patch.diff, demo.cc, README.txt, meta.json skeleton).
set -u
wt=$1; out=$2; id=$3; prop=$4
cd $wt || exit 2
git checkout -q -- src 2>/dev/null
git apply --check $out/patch.diff || { echo "PATCH DOES NOT APPLY"; exit 1; }
git apply $out/patch.diff
echo "[confirm] building with patch + running test suite ..."
make -j16 >/tmp/confirm_$id.make.log 2>&1 || { echo "BUILD FAILED"; tail -5 /tmp/confirm_$id.make.log; git checkout -q -- src; exit 1; }
make -k -j16 check >/tmp/confirm_$id.check.log 2>&1
pass=$(grep -c "^PASS" /tmp/confirm_$id.check.log); fail=$(grep -c "^FAIL\|^ERROR" /tmp/confirm_$id.check.log)
echo "[confirm] test suite with patch: PASS=$pass FAIL=$fail"
g++ -std=gnu++17 -O1 -g -I$wt/src -I$wt -DHAVE_CONFIG_H $out/demo.cc $wt/src/.libs/libmeddly.a -lgmp -o /tmp/confirm_$id.demo_with 2>/tmp/confirm_$id.cc.log || { echo "DEMO DOES NOT COMPILE"; head -5 /tmp/confirm_$id.cc.log; git checkout -q -- src; exit 1; }
timeout 600 /tmp/confirm_$id.demo_with >/tmp/confirm_$id.with.out 2>&1; rcw=$?
echo "[confirm] demo with patch: exit $rcw"
git checkout -q -- src
make -C src -j16 >/tmp/confirm_$id.make2.log 2>&1 || { echo "REBUILD FAILED"; exit 1; }
g++ -std=gnu++17 -O1 -g -I$wt/src -I$wt -DHAVE_CONFIG_H $out/demo.cc $wt/src/.libs/libmeddly.a -lgmp -o /tmp/confirm_$id.demo_without 2>>/tmp/confirm_$id.cc.log
timeout 600 /tmp/confirm_$id.demo_without >/tmp/confirm_$id.without.out 2>&1; rco=$?
echo "[confirm] demo without patch: exit $rco"
if [ "$pass" = "121" ] && [ "$fail" = "0" ] && [ $rcw -ne 0 ] && [ $rco -eq 0 ]; then
  mkdir -p /verif/seeded/$id
  cp $out/patch.diff $out/demo.cc /verif/seeded/$id/
  [ -f $out/README.txt ] && cp $out/README.txt /verif/seeded/$id/README.txt
  cat > /verif/seeded/$id/meta.json <<EOM
{
 "id": "$id",
 "property": "$prop",
 "confirmed": {"test_suite_with_patch": "PASS=$pass FAIL=$fail", "demo_with_patch_exit": $rcw, "demo_without_patch_exit": $rco,
               "how": "tools/confirm_seed.sh in scratch worktree $wt (make -j16 && make -k check; demo built against src/.libs/libmeddly.a with and without the patch)"},
 "needs_to_manifest": "see README.txt",
 "checks_run": {}
}
EOM
  echo "[confirm] KEPT as /verif/seeded/$id"
  rm -f /tmp/confirm_$id.*
  exit 0
fi
echo "[confirm] NOT confirmed (kept logs /tmp/confirm_$id.*)"
exit 1

#!/bin/bash
# usage: tools/seedlane.sh <lane-worktree> <tier> <seed-id>:<Cnn>[,<Cnn>...] ...
# Like seedtest.sh but in a scratch worktree of /repo (created if missing, plain `git worktree add`), so several
# lanes can run side by side and /repo is not touched.  The checks build from the lane's tree (VERIF_REPO) into
# their own .build/<variant>-<hash> directory and write logs/evidence under <lane-worktree>.verif/ (VERIF_OUTROOT).
# Appends "SEED ..." lines to /verif/seeded/<seed-id>/runs.log and updates meta.json via seedrecord.py.
wt=$1; tier=$2; shift 2
cd /verif
[ -d $wt ] || git -C /repo worktree add --detach $wt HEAD >/dev/null 2>&1 || { echo "cannot create $wt"; exit 2; }
for item in "$@"; do
  id=${item%%:*}; props=${item#*:}
  git -C $wt checkout -q -- . ; git -C $wt apply /verif/seeded/$id/patch.diff || { echo "SEED $id patch does not apply"; continue; }
  for p in ${props//,/ }; do
    s=$(date +%s)
    out=$(VERIF_REPO=$wt VERIF_OUTROOT=$wt.verif VERIF_JOBS=${VERIF_JOBS:-8} ./check $p --tier $tier 2>&1); rc=$?
    e=$(date +%s)
    line="SEED $id $p rc=$rc $((e-s))s viol=$(echo "$out" | grep -c '^VIOLATION') | $(echo "$out" | grep 'key:' | head -3 | cut -c1-160 | tr '\n' ' ')"
    echo "$line"; echo "$line" >> /verif/seeded/$id/runs.log
    echo "$line" | python3 tools/seedrecord.py $id $tier >/dev/null
    [ $rc -eq 2 ] && echo "$out" | tail -5
  done
  git -C $wt checkout -q -- .
done

#!/bin/bash
# usage: mkworktree.sh <dir>   -- scratch git worktree of /repo HEAD, with the (git-ignored)
# autotools build files copied in so that `make -j16 && make -k check` works there.
set -e
d="$1"; [ -n "$d" ] || { echo "usage: $0 <dir>"; exit 2; }
git -C /repo worktree add --detach "$d" HEAD >/dev/null
# copy ignored build-system files (not objects/binaries) so the tree can be built in place
rsync -a --ignore-existing \
  --exclude '.git' --exclude '*.o' --exclude '*.lo' --exclude '*.la' --exclude '.libs' \
  --exclude '*.log' --exclude '*.trs' --exclude 'autom4te.cache' \
  /repo/ "$d"/
# drop copied test/example executables (files without extension that are ELF)
find "$d"/tests "$d"/examples -maxdepth 1 -type f -perm -u+x ! -name '*.sh' ! -name '*_sh' -exec sh -c 'file -b "$1" | grep -q ELF && rm -f "$1"' _ {} \; 2>/dev/null || true
echo "$d"
